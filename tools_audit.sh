#!/bin/sh
# Full local audit: baseline tests, self-test, every quick check at two seeds, sensitivity (own mutants + seeded changes).
# Writes /verif/AUDIT.md.  Takes ~40 minutes on 16 idle cores.
cd "$(dirname "$0")"
OUT=AUDIT.md
{
echo "# Audit $(date -u +%Y-%m-%dT%H:%MZ)  repo=$(git -C /repo rev-parse --short HEAD)  verif=$(git rev-parse --short HEAD)"
echo; echo "## pinned test suite"; ./tools_baseline.sh 2>&1 | grep -v auto_act
echo; echo "## self-test (determinism, stub fidelity)"; ./vcheck selftest 2>&1 | grep -v auto_act | cut -c1-260
for sd in 0 1; do
  echo; echo "## quick checks, VERIF_SEED=$sd"
  for p in C01 C03 C04 C05 C06 C07 C17 C18 C19 C20; do
    VERIF_SEED=$sd ./vcheck $p 2>&1 | grep -E "quick:|VIOLATION|HARNESS|WARNING" | cut -c1-220
  done
done
echo; echo "## sensitivity (mutants + seeded sub-agent changes; replay of every detection re-executed twice)"
VERIF_SENS_PAR=3 ./vcheck sensitivity 2>&1 | grep -v auto_act | cut -c1-200
} > $OUT 2>&1
# evidence files must be those of seed 0
for p in C01 C03 C04 C05 C06 C07 C17 C18 C19 C20; do VERIF_SEED=0 ./vcheck $p >/dev/null 2>&1; done
tail -3 $OUT
