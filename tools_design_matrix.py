#!/usr/bin/env python3
"""Rewrites section 10.4 of DESIGN.md (between the markers) from seeded/*/meta.json."""
import glob, json, os, re
HERE = os.path.dirname(os.path.abspath(__file__))
rows = []
for d in sorted(glob.glob(os.path.join(HERE, "seeded", "*", "meta.json"))):
    m = json.load(open(d))
    rows.append(m)
n = len(rows)
missed_first = [m for m in rows if m.get("history") and "MISSED" in m["history"]]
controls = [m for m in rows if m.get("expect") == "missed"]
out = []
out.append("### 10.4 Seeded changes from independent sub-agents\n")
out.append("Two rounds of ten fresh sub-agents (one per claimed property per round) were given only the property text and a\n"
           "scratch worktree of `/repo`, nothing from `/verif`, and asked for changes that break the property while the 540 pinned\n"
           "tests stay green and that need something specific to manifest (round 2: \"subtle\" changes in a named focus area).\n"
           "Each change below was re-confirmed here in a fresh worktree (demo passes unchanged, fails with the patch, all 540\n"
           "stable tests still pass) before being kept as `/verif/seeded/<id>/{patch.diff, demo.py, notes.md, meta.json}`;\n"
           "`./vcheck sensitivity seeded/` re-runs the registered quick checks against each of them. Duplicates of an earlier\n"
           "change (same edit delivered by two agents) are filed once.\n")
out.append("| id | property | detected by (quick tier) | first built? |")
out.append("|---|---|---|---|")
for m in rows:
    det = ",".join(m["detected_by"]) or ("quiet (control, see below)" if m.get("expect") == "missed" else
                                         ("thorough tier only: " + ",".join(m.get("detected_by_thorough", [])) if m.get("expect") == "quick-may-miss" else "MISSED"))
    first = "no - strengthened" if (m.get("history") and "MISSED" in m["history"]) else ("n/a" if m.get("expect") == "missed" else "yes")
    out.append(f"| {m['id']} | {m['property']} | {det} | {first} |")
out.append(f"\n{n} kept changes: {n - len(missed_first) - len(controls)} detected by the checks as they stood when the change arrived, "
           f"{len(missed_first)} missed at first and detected after strengthening, {len(controls)} kept as a control that must stay quiet.\n")
out.append("What the misses taught (and what was strengthened):\n")
for m in rows:
    if m.get("history"):
        out.append(f"* **{m['id']}** -- {m['history']}")
out.append("")
block = "\n".join(out)
p = os.path.join(HERE, "DESIGN.md")
s = open(p).read()
B, E = "<!-- SEEDED-MATRIX-BEGIN -->", "<!-- SEEDED-MATRIX-END -->"
if B in s:
    s = s[:s.index(B)] + B + "\n" + block + "\n" + s[s.index(E):]
else:
    # first time: replace the hand-written 10.4 up to 10.5
    i = s.index("### 10.4 Seeded changes")
    j = s.index("### 10.5 Own mutants")
    s = s[:i] + B + "\n" + block + "\n" + E + "\n\n" + s[j:]
open(p, "w").write(s)
print(n, "seeded changes;", len(missed_first), "missed at first;", len(controls), "controls")
