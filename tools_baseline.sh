#!/bin/sh
# Runs the repo's pinned test suite and checks every BASELINE stable_pass test still passes.
OUT=$(mktemp /tmp/junit.XXXXXX.xml)
cd /repo && timeout 1800 /venv/bin/python -m pytest -ra -q -p no:cacheprovider --timeout=900 --continue-on-collection-errors --junitxml=$OUT >/dev/null 2>&1
/venv/bin/python - "$OUT" <<'PY'
import json, sys, xml.etree.ElementTree as ET
base = json.load(open('/root/.vp/BASELINE.json'))
want = set(base['stable_pass'])
t = ET.parse(sys.argv[1])
ok = set()
for tc in t.iter('testcase'):
    name = f"{tc.get('classname')}::{tc.get('name')}"
    if not any(c.tag in ('failure','error','skipped') for c in tc):
        ok.add(name)
missing = sorted(want - ok)
print(f"baseline stable_pass={len(want)} passing_now={len(want & ok)} missing={len(missing)}")
for m in missing[:20]: print("  MISSING", m)
sys.exit(1 if missing else 0)
PY
rc=$?
rm -f $OUT
exit $rc
