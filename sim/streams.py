"""Simulated storage and transport handed to fastavro as its ``fo`` argument.

Every stream logs each method call as (op, arg, result-length); the log is oracle input
("only read was called") and part of the run's event digest.
"""
import io


class StreamViolation(Exception):
    """Raised inside fastavro when it touches a stream method the stream kind does not
    offer.  Deliberately *not* an AttributeError subclass so that hasattr()-style probing
    cannot hide it; the access is recorded in ``forbidden`` either way."""


class _Logged:
    def __init__(self):
        self.log = []
        self.forbidden = []

    def _l(self, op, arg=None, res=None):
        self.log.append((op, arg, res))

    def ops(self):
        return sorted({e[0] for e in self.log})


class ReadOnlySeq(_Logged):
    """A read-only sequential input: the only thing it can do is ``read(n)``.

    Faults are applied to the stored bytes before reading starts (cut / flip), so the
    object is also the "disk after the crash"."""

    _ALLOWED = {"read"}

    def __init__(self, data, cut=None, flips=()):
        super().__init__()
        data = bytes(data)
        if flips:
            b = bytearray(data)
            for off, mask in flips:
                b[off] ^= mask
            data = bytes(b)
        if cut is not None:
            data = data[:cut]
        self._data = data
        self._pos = 0

    def read(self, n=-1):
        if n is None or n < 0:
            out = self._data[self._pos:]
        else:
            out = self._data[self._pos:self._pos + n]
        self._pos += len(out)
        self._l("read", n, len(out))
        return out

    @property
    def consumed(self):
        return self._pos

    @property
    def remaining(self):
        return len(self._data) - self._pos

    def __getattr__(self, name):
        # only reached for attributes that do not exist
        if name.startswith("__") and name.endswith("__"):
            raise AttributeError(name)
        self.forbidden.append(name)
        raise AttributeError(f"read-only sequential stream has no {name!r}")


class TellingSeq(ReadOnlySeq):
    """Sequential input that additionally answers ``tell()`` (block_reader needs it);
    tell is the simulator's own byte counter."""

    def tell(self):
        self._l("tell", None, self._pos)
        return self._pos


class _RawSeq(io.RawIOBase):
    """Raw, non-seekable byte source for a REAL io.BufferedReader (see buffered_seq)."""

    def __init__(self, data):
        super().__init__()
        self._data = data
        self._pos = 0

    def readable(self):
        return True

    def seekable(self):
        return False

    def tell(self):
        return self._pos

    def readinto(self, b):
        n = min(len(b), len(self._data) - self._pos)
        b[:n] = self._data[self._pos:self._pos + n]
        self._pos += n
        return n


def buffered_seq(data, bufsize, cut=None, flips=()):
    """A real io.BufferedReader (read / read1 / readinto / peek / tell, not seekable) with a tiny
    buffer over the same faulted bytes a ReadOnlySeq would serve: what ``open(path, 'rb')`` or a pipe's
    read end hands to fastavro, with the buffer boundary -- which real files have every 8 KiB --
    moved to every few bytes so that code paths depending on it are actually reached.
    ``tell()`` is the logical position (bytes handed out), independent of read-ahead."""
    base = ReadOnlySeq(data, cut=cut, flips=flips)
    return io.BufferedReader(_RawSeq(base._data), buffer_size=max(1, bufsize))


class WriteOnlySink(_Logged):
    """A write-only, non-seekable output (pipe / socket like): write, flush and
    seekable() -> False.  Anything else is recorded and raises."""

    def __init__(self):
        super().__init__()
        self._buf = bytearray()
        self.flushed = 0

    def write(self, b):
        b = bytes(b)
        self._buf += b
        self._l("write", len(b), len(b))
        return len(b)

    def flush(self):
        self.flushed = len(self._buf)
        self._l("flush")

    def seekable(self):
        self._l("seekable", None, 0)
        return False

    def getvalue(self):
        return bytes(self._buf)

    def __getattr__(self, name):
        if name.startswith("__") and name.endswith("__"):
            raise AttributeError(name)
        self.forbidden.append(name)
        raise AttributeError(f"write-only sink has no {name!r}")


class CountingSink(WriteOnlySink):
    """A non-seekable output that can report its position (a byte-counting upload / pipe wrapper, an
    fsspec-style write-mode file): ``tell()`` works and is already non-zero when the container starts,
    because the caller has sent a preamble through the same object."""

    def __init__(self, preamble=b"PREAMBLE"):
        super().__init__()
        self._buf += preamble
        self.preamble = len(preamble)
        self.flushed = len(self._buf)

    def tell(self):
        self._l("tell", None, len(self._buf))
        return len(self._buf)


class SimFile(_Logged):
    """Seekable in-memory file with 'w+b' or 'a+b' semantics (in append mode every
    write lands at the end regardless of the position, as POSIX O_APPEND does)."""

    def __init__(self, data=b"", mode="w+b", readable=True, name=None):
        super().__init__()
        self._buf = bytearray(data)
        self.mode = mode
        self._append = mode.startswith("a")
        self._pos = len(self._buf) if self._append else 0
        self._readable = readable
        self.flushed = len(self._buf)
        if name is not None:
            self.name = name

    def seekable(self):
        self._l("seekable")
        return True

    def readable(self):
        self._l("readable")
        return self._readable

    def writable(self):
        return True

    def tell(self):
        self._l("tell", None, self._pos)
        return self._pos

    def seek(self, off, whence=0):
        if whence == 0:
            p = off
        elif whence == 1:
            p = self._pos + off
        elif whence == 2:
            p = len(self._buf) + off
        else:
            raise ValueError("bad whence")
        if p < 0:
            raise OSError(22, "Invalid argument")
        self._pos = p
        self._l("seek", (off, whence), p)
        return p

    def read(self, n=-1):
        if not self._readable:
            raise io.UnsupportedOperation("read")
        if n is None or n < 0:
            out = bytes(self._buf[self._pos:])
        else:
            out = bytes(self._buf[self._pos:self._pos + n])
        self._pos += len(out)
        self._l("read", n, len(out))
        return out

    def write(self, b):
        b = bytes(b)
        if self._append:
            self._pos = len(self._buf)
        if self._pos > len(self._buf):
            self._buf += b"\0" * (self._pos - len(self._buf))
        self._buf[self._pos:self._pos + len(b)] = b
        self._pos += len(b)
        self._l("write", len(b), len(b))
        return len(b)

    def flush(self):
        self.flushed = len(self._buf)
        self._l("flush")

    def getvalue(self):
        return bytes(self._buf)


class PipeClosed(Exception):
    pass


class SimPipe:
    """Bounded byte queue between a writer task and a reader task.

    Semantics are those of io.BufferedReader over an OS pipe (what a Python user of
    "pipes and sockets" holds): read(n) blocks until n bytes arrived or the write end is
    closed and then returns <= n bytes; write blocks while the queue is full.  Blocking is
    cooperative: the task parks in the scheduler."""

    def __init__(self, sched, capacity=None):
        self.sched = sched
        self.capacity = capacity
        self.buf = bytearray()
        self.w_closed = False
        self.total_written = 0
        self.total_read = 0
        self.w = _PipeW(self)
        self.r = _PipeR(self)


class _PipeW(_Logged):
    def __init__(self, pipe):
        super().__init__()
        self.p = pipe
        self.unflushed = 0   # bytes written since the last flush()

    def write(self, b):
        p = self.p
        b = bytes(b)
        if p.w_closed:
            raise ValueError("write to closed pipe")
        self.unflushed += len(b)
        i = 0
        while i < len(b):
            if p.capacity is not None and len(p.buf) >= p.capacity:
                p.sched.block_until(lambda: len(p.buf) < p.capacity, "pipe-full")
            room = len(b) - i if p.capacity is None else min(len(b) - i, p.capacity - len(p.buf))
            p.buf += b[i:i + room]
            p.total_written += room
            i += room
            p.sched.yield_point("pipe-write")
        self._l("write", len(b), len(b))
        return len(b)

    def flush(self):
        self._l("flush")
        self.unflushed = 0
        self.p.sched.yield_point("pipe-flush")

    def seekable(self):
        self._l("seekable")
        return False

    def close(self):
        self.p.w_closed = True
        self._l("close")
        self.p.sched.yield_point("pipe-close")

    def __getattr__(self, name):
        if name.startswith("__") and name.endswith("__"):
            raise AttributeError(name)
        self.forbidden.append(name)
        raise AttributeError(f"pipe write end has no {name!r}")


class _PipeR(_Logged):
    def __init__(self, pipe):
        super().__init__()
        self.p = pipe

    def read(self, n=-1):
        p = self.p
        if n == 0:
            self._l("read", 0, 0)
            return b""
        out = bytearray()
        want = n if (n is not None and n >= 0) else None
        while want is None or len(out) < want:
            if not p.buf:
                if p.w_closed:
                    break
                p.sched.block_until(lambda: bool(p.buf) or p.w_closed, "pipe-empty")
                continue
            take = len(p.buf) if want is None else min(want - len(out), len(p.buf))
            out += p.buf[:take]
            del p.buf[:take]
            p.total_read += take
            p.sched.yield_point("pipe-read")
        self._l("read", n, len(out))
        return bytes(out)

    def __getattr__(self, name):
        if name.startswith("__") and name.endswith("__"):
            raise AttributeError(name)
        self.forbidden.append(name)
        raise AttributeError(f"pipe read end has no {name!r}")
