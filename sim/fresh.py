"""Fresh-interpreter oracle: a *pristine* server process that has imported fastavro but
never called it.  For each isolated evaluation the server forks; the child applies a
descriptor slice to a fresh environment and pipes back the observations (about 1 ms,
versus ~85 ms for a truly fresh `python -c`).  Fork-fresh == fresh interpreter is itself
checked in the self-test against real subprocess interpreters.
"""
import os
import pickle
import struct
import sys
import traceback


def _read_exact(fd, n):
    out = bytearray()
    while len(out) < n:
        b = os.read(fd, n - len(out))
        if not b:
            raise EOFError("fresh server pipe closed")
        out += b
    return bytes(out)


def _send(fd, obj):
    data = pickle.dumps(obj, protocol=pickle.HIGHEST_PROTOCOL)
    os.write(fd, struct.pack("<I", len(data)))
    i = 0
    while i < len(data):
        i += os.write(fd, data[i:i + 65536])


def _recv(fd):
    n = struct.unpack("<I", _read_exact(fd, 4))[0]
    return pickle.loads(_read_exact(fd, n))


def evaluate_slice(base_env, descs):
    """Apply descs to a fresh copy of base_env; returns list of observations.
    (Runs inside the forked child, or in a subprocess for the fidelity self-test.)"""
    import copy
    import env
    import ops
    F = env.load()
    E = copy.deepcopy(base_env)
    return [ops.apply(F, d, E) for d in descs]


class Server:
    def __init__(self):
        self.owner = os.getpid()
        req_r, req_w = os.pipe()
        rsp_r, rsp_w = os.pipe()
        pid = os.fork()
        if pid == 0:
            # ---- server process: never calls fastavro itself -----------------------
            try:
                os.close(req_w)
                os.close(rsp_r)
                self._serve(req_r, rsp_w)
            finally:
                os._exit(0)
        os.close(req_r)
        os.close(rsp_w)
        self.pid = pid
        self.req = req_w
        self.rsp = rsp_r
        self.calls = 0

    @staticmethod
    def _serve(req_r, rsp_w):
        while True:
            try:
                job = _recv(req_r)
            except EOFError:
                return
            if job is None:
                return
            r, w = os.pipe()
            child = os.fork()
            if child == 0:
                os.close(r)
                try:
                    try:
                        if isinstance(job, tuple) and len(job) == 4 and job[0] == "call":
                            import importlib
                            mod = importlib.import_module(job[1])
                            res = ("ok", getattr(mod, job[2])(*job[3]))
                        else:
                            base_env, descs = job
                            res = ("ok", evaluate_slice(base_env, descs))
                    except BaseException:
                        res = ("error", traceback.format_exc())
                    _send(w, res)
                finally:
                    os._exit(0)
            os.close(w)
            try:
                res = _recv(r)
            except EOFError:
                res = ("error", "fresh child died without answering")
            os.close(r)
            os.waitpid(child, 0)
            _send(rsp_w, res)

    def evaluate(self, base_env, descs):
        if os.getpid() != self.owner:
            raise RuntimeError("fresh server used from a process that does not own it")
        _send(self.req, (base_env, descs))
        res = _recv(self.rsp)
        self.calls += 1
        if res[0] != "ok":
            raise RuntimeError("fresh evaluation failed:\n" + res[1])
        return res[1]

    def call(self, module, func, args):
        """Run module.func(*args) in a fresh fork of the pristine server."""
        if os.getpid() != self.owner:
            raise RuntimeError("fresh server used from a process that does not own it")
        _send(self.req, ("call", module, func, tuple(args)))
        res = _recv(self.rsp)
        self.calls += 1
        if res[0] != "ok":
            raise RuntimeError("fresh call failed:\n" + res[1])
        return res[1]

    def close(self):
        try:
            _send(self.req, None)
            os.close(self.req)
            os.close(self.rsp)
            os.waitpid(self.pid, 0)
        except Exception:  # noqa
            pass


_server = None


def server():
    """The pristine server owned by this process (created on first use -- callers must
    make sure that is before this process ever calls fastavro)."""
    global _server
    if _server is None or _server.owner != os.getpid():
        _server = Server()
    return _server


if __name__ == "__main__":
    # fidelity helper: evaluate a pickled (base_env, descs) from stdin in a truly fresh
    # interpreter and print the pickled observations to stdout
    sys.path.insert(0, os.path.dirname(os.path.abspath(__file__)))
    base_env, descs = pickle.loads(sys.stdin.buffer.read())
    sys.stdout.buffer.write(pickle.dumps(evaluate_slice(base_env, descs)))
