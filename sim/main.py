"""Single entry script for all checks (so no module is ever loaded twice)."""
import argparse
import os
import sys

sys.dont_write_bytecode = True
HERE = os.path.dirname(os.path.abspath(__file__))
if HERE not in sys.path:
    sys.path.insert(0, HERE)


def main():
    ap = argparse.ArgumentParser()
    ap.add_argument("target")
    ap.add_argument("--tier", default=os.environ.get("VERIF_TIER", "quick"), choices=["quick", "thorough"])
    ap.add_argument("--replay")
    ap.add_argument("--digest-runs")
    ap.add_argument("--runs", type=int)
    ap.add_argument("--budget", type=float)
    ap.add_argument("--deep", action="store_true")
    ap.add_argument("--quick-smoke", action="store_true")
    ap.add_argument("rest", nargs="*")
    a = ap.parse_args()
    seed = int(os.environ.get("VERIF_SEED", "0") or 0)
    import runner
    if a.target == "selftest":
        import selftest
        return selftest.main(a.deep, a.quick_smoke)
    if a.target == "sensitivity":
        import sensitivity
        return sensitivity.main(a.rest)
    pid = a.target.upper()
    if a.replay:
        return runner.replay(pid, a.replay)
    if a.digest_runs:
        return runner.digest_runs(pid, a.tier, seed, [int(x) for x in a.digest_runs.split(",")])
    return runner.run_check(pid, a.tier, seed, budget_s=a.budget, max_runs=a.runs)


if __name__ == "__main__":
    sys.exit(main())
