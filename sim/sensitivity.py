"""Sensitivity self-test: break a property on purpose in a scratch copy of fastavro and
confirm the targeted quick check exits 1.

Two sources of breakage: /verif/mutants/mutants.py (string-replacement mutants written
with the checks) and /verif/seeded/<id>/patch.diff (changes produced by independent
sub-agents, kept only after confirmation).  The scratch copy lives under a fresh temp
directory outside /repo and /verif and is removed afterwards.
"""
import concurrent.futures as cf
import importlib.util
import json
import os
import shutil
import subprocess
import sys
import tempfile
import time

VERIF = os.path.dirname(os.path.dirname(os.path.abspath(__file__)))
REPO = os.environ.get("VERIF_REPO", "/repo")


def load_mutants():
    p = os.path.join(VERIF, "mutants", "mutants.py")
    spec = importlib.util.spec_from_file_location("mutants", p)
    m = importlib.util.module_from_spec(spec)
    spec.loader.exec_module(m)
    return m.MUTANTS


def seeded():
    out = []
    d = os.path.join(VERIF, "seeded")
    if not os.path.isdir(d):
        return out
    for name in sorted(os.listdir(d)):
        meta = os.path.join(d, name, "meta.json")
        patch = os.path.join(d, name, "patch.diff")
        if os.path.exists(meta) and os.path.exists(patch):
            m = json.load(open(meta))
            out.append({"name": "seeded/" + name, "prop": m["property"], "patch": patch,
                        "expect": m.get("expect", "detected"), "checks": m.get("checks")})
    return out


def refactors():
    """Behaviour-preserving changes from sub-agents: every check must stay quiet on them."""
    out = []
    d = os.path.join(VERIF, "refactors")
    if not os.path.isdir(d):
        return out
    for name in sorted(os.listdir(d)):
        meta = os.path.join(d, name, "meta.json")
        patch = os.path.join(d, name, "patch.diff")
        if os.path.exists(meta) and os.path.exists(patch):
            m = json.load(open(meta))
            out.append({"name": "refactors/" + name, "prop": m["property"], "patch": patch, "expect": "missed",
                        "checks": m.get("sensitivity_checks") or [m["property"]]})
    return out


def make_scratch():
    tmp = tempfile.mkdtemp(prefix="verif-mut-")
    shutil.copytree(os.path.join(REPO, "fastavro"), os.path.join(tmp, "fastavro"),
                    ignore=shutil.ignore_patterns("__pycache__", "*.so", "*.c", "*.pyc"))
    return tmp


def run_one(m, tier="quick", budget=None):
    tmp = make_scratch()
    t0 = time.time()
    try:
        if "patch" in m:
            r = subprocess.run(["patch", "-p1", "-s", "-d", tmp, "-i", m["patch"]], capture_output=True, text=True)
            if r.returncode != 0:
                return dict(m, result="patch-failed", detail=r.stdout + r.stderr)
        else:
            path = os.path.join(tmp, m["file"])
            s = open(path).read()
            if s.count(m["old"]) != 1:
                return dict(m, result="stale-mutant", detail=f"old text found {s.count(m['old'])}x in {m['file']}")
            open(path, "w").write(s.replace(m["old"], m["new"]))
            for (f2, o2, n2) in m.get("extra") or []:
                p2 = os.path.join(tmp, f2)
                s2 = open(p2).read()
                if s2.count(o2) != 1:
                    return dict(m, result="stale-mutant", detail=f"extra edit: old text found {s2.count(o2)}x in {f2}")
                open(p2, "w").write(s2.replace(o2, n2))
        props = m.get("checks") or [m["prop"]]
        results = {}
        for pid in props:
            env = dict(os.environ)
            env["VERIF_REPO"] = tmp
            env["VERIF_NO_RECHECK"] = "1"
            if budget:
                env["VERIF_BUDGET_S"] = str(budget)
            r = subprocess.run([os.path.join(VERIF, "vcheck"), pid, "--tier", tier], env=env,
                               capture_output=True, text=True, timeout=1200)
            line = [x for x in r.stdout.splitlines() if x.startswith("VIOLATION")]
            results[pid] = {"rc": r.returncode, "violation": line[:1], "tail": r.stdout[-300:] if r.returncode not in (0, 1) else "",
                            "err": r.stderr[-500:] if r.returncode not in (0, 1) else ""}
            if r.returncode == 1 and line and "replay=" in line[0]:
                # the replay file must reproduce the violation in a fresh process, twice
                rp = line[0].split("replay=", 1)[1].strip()
                oks = []
                for _ in range(2):
                    rr = subprocess.run([os.path.join(VERIF, "vcheck"), pid, "--replay", rp], env=env,
                                        capture_output=True, text=True, timeout=600)
                    oks.append(rr.returncode == 1 and "VIOLATION" in rr.stdout and "different violation class" not in rr.stdout)
                results[pid]["replay_reproduces"] = all(oks)
                if not all(oks):
                    try:
                        hd = json.load(open(rp))["violation"].get("history_dependent") or {}
                        if hd.get("range_reproduces_in_fresh_process") is False:
                            # the check itself says so in the replay file: allocator-dependent (address re-use)
                            results[pid]["replay_reproduces"] = "declared-not-reproducible"
                    except Exception:  # noqa
                        pass
        detected = [p for p, v in results.items() if v["rc"] == 1]
        bad_replay = [p for p, v in results.items() if v.get("replay_reproduces") is False]
        res = "detected" if detected else "MISSED"
        if bad_replay:
            res = "REPLAY-FAILS"
        elif any(v.get("replay_reproduces") == "declared-not-reproducible" for v in results.values()):
            res = "detected"
            m = dict(m, note="replay declared not reproducible (address re-use)")
        return dict(m, result=res, by=detected, results=results, wall=round(time.time() - t0, 1))
    finally:
        shutil.rmtree(tmp, ignore_errors=True)


def main(args):
    sel = [a for a in args if not a.startswith("-")]
    ms = load_mutants() + seeded() + refactors()
    if sel:
        ms = [m for m in ms if m["prop"] in sel or m["name"] in sel or any(m["name"].startswith(s) for s in sel)]
    missed = 0
    out = []
    with cf.ThreadPoolExecutor(max_workers=int(os.environ.get("VERIF_SENS_PAR", "2"))) as ex:
        for r in ex.map(run_one, ms):
            tag = r["result"]
            exp = r.get("expect", "detected")
            if exp == "quick-may-miss":
                # a real breakage whose trigger is beyond the quick tier's reach (documented in its meta.json;
                # the thorough tier reports it): either outcome is acceptable here
                tag = "detected" if tag == "detected" else ("quick-missed-as-documented" if tag == "MISSED" else tag)
                if tag not in ("detected", "quick-missed-as-documented"):
                    missed += 1
            elif exp == "missed":
                # control mutants (equivalent rewrites / unreachable changes): detection would be a false alarm
                if tag == "detected":
                    tag = "FALSE-ALARM"
                    missed += 1
                elif tag == "MISSED":
                    tag = "ok-quiet"
                else:
                    missed += 1   # patch-failed / stale-mutant: the control did not run at all
            elif tag not in ("detected",):
                missed += 1
            print(f"{tag:9s} {r['prop']} {r['name']} by={r.get('by')} wall={r.get('wall')}s {r.get('detail', '')} {r.get('note', '')}", flush=True)
            if tag not in ("detected", "ok-quiet", "quick-missed-as-documented"):
                print("          " + json.dumps({k: v for k, v in r.get("results", {}).items()})[:600])
            out.append({k: v for k, v in r.items() if k not in ("old", "new", "extra")})
    json.dump(out, open(os.path.join(VERIF, "mutants", "last_sensitivity.json"), "w"), indent=1)
    print(f"sensitivity: {len(ms) - missed}/{len(ms)} as expected (detected, or quiet for controls)")
    return 1 if missed else 0
