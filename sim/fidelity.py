"""Stub-fidelity self-tests: do the simulated seams behave like the real things they
stand for?

1. SimPipe vs a real os.pipe wrapped in io.BufferedReader with a real writer thread:
   same records, reader makes only read() calls in both worlds.
2. fork-fresh (pristine forked server) vs a truly fresh `python` subprocess on a sample
   of call-descriptor slices.
3. SimFile('a+b') vs a real file opened 'a+b' for the tell/seek/append semantics
   fastavro's append detection relies on.
"""
import io
import os
import pickle
import subprocess
import sys
import tempfile
import threading

HERE = os.path.dirname(os.path.abspath(__file__))


def pipe_fidelity(n=40):
    import env
    import gen
    import refavro
    import sched
    from choices import Choices
    from streams import SimPipe
    from props import common
    F = env.load()
    bad = 0
    for i in range(n):
        ch = Choices(seed=1000 + i)
        sc = common.container_scenario(ch, max_records=8)
        sc.sync_interval = common.draw_sync_interval(ch, common.encoded_sizes(sc))
        if not sc.sync_marker:
            sc.sync_marker = b"\x09" * 16
        # real world
        r_fd, w_fd = os.pipe()
        wf = os.fdopen(w_fd, "wb", buffering=0)
        rf = io.BufferedReader(os.fdopen(r_fd, "rb", buffering=0))
        err = []

        def wt():
            try:
                common.fa_write(sc, wf)
            except Exception as e:  # noqa
                err.append(e)
            finally:
                wf.close()

        t = threading.Thread(target=wt)
        t.start()
        try:
            real = list(F.reader(rf))
        except Exception as e:  # noqa
            real = ("exc", type(e).__name__)
        t.join()
        rf.close()
        # simulated world
        s = sched.Scheduler(i, ("uniform",), monitor=False)
        pipe = SimPipe(s, ch.pick([1, 7, 64, None]))

        def swt():
            try:
                common.fa_write(sc, pipe.w)
            finally:
                pipe.w.close()

        s.spawn("w", swt)
        s.spawn("r", lambda: list(F.reader(pipe.r)))
        res = s.run()
        sim = res["r"][1] if res["r"][0] == "ok" else ("exc", type(res["r"][1]).__name__)
        same = (real == sim) or (isinstance(real, list) and isinstance(sim, list) and len(real) == len(sim)
                                 and all(refavro.value_eq(a, b) for a, b in zip(real, sim)))
        if not same or err:
            bad += 1
            print(f"fidelity pipe: case {i} differs (real={str(real)[:80]} sim={str(sim)[:80]} err={err})")
    print(f"fidelity pipe: {n} scenarios, {bad} differences (SimPipe vs os.pipe + BufferedReader + real writer thread)")
    return bad


def fresh_fidelity(n=12):
    """fork-fresh == fresh interpreter on sampled slices of C17 histories."""
    import env
    import fresh
    import ops
    import runner
    from choices import Choices
    import choices as cm
    import props.c17 as c17
    env.load()
    srv = fresh.server()
    bad = 0
    tested = 0
    for i in range(n):
        ch = Choices(seed=cm.run_seed(0, "C17", 5000 + i))
        ctx = runner.RunCtx("quick")
        H = c17.History(ch, ctx)
        descs = []
        parsed_into = {}
        for j in range(12):
            d = H.next_desc()
            descs.append(d)
            if d["op"] == "parse" and d.get("out") and d.get("into"):
                parsed_into[d["out"]] = d["into"]
        k = len(descs) - 1
        sl = c17.slice_of(descs, k, parsed_into)
        prog = [descs[x] for x in sl] + [descs[k]]
        a = srv.evaluate(H.base, prog)
        envv = dict(os.environ)
        envv["PYTHONHASHSEED"] = "777"
        p = subprocess.run([sys.executable, os.path.join(HERE, "fresh.py")], input=pickle.dumps((H.base, prog)),
                           capture_output=True, env=envv, timeout=120)
        if p.returncode != 0:
            print("fidelity fresh: subprocess failed", p.stderr[-500:])
            bad += 1
            continue
        b = pickle.loads(p.stdout)
        tested += 1
        if a != b:
            bad += 1
            print(f"fidelity fresh: case {i} differs\n fork: {a[-1]}\n proc: {b[-1]}")
    print(f"fidelity fresh: {tested} slices, {bad} differences (forked pristine server vs fresh python subprocess)")
    return bad


def simfile_fidelity():
    from streams import SimFile
    bad = 0
    tmp = tempfile.mkdtemp(prefix="verif-fid-")
    try:
        path = os.path.join(tmp, "f")
        with open(path, "wb") as f:
            f.write(b"0123456789")
        real = open(path, "a+b")
        sim = SimFile(b"0123456789", "a+b")
        # exactly the calls fastavro's append path makes: _is_appendable (seekable, tell, readable),
        # seek(0) + reads of the header, seek(0, 2), writes, flush.  (tell() after a write in append
        # mode is not used by fastavro and differs between Python's buffered view and POSIX.)
        script = [("seekable",), ("tell",), ("readable",), ("seek", 0), ("read", 4), ("read", 1), ("read", 100),
                  ("read", 1), ("seek", 0, 2), ("tell",), ("write", b"AB"), ("write", b"CD"), ("flush",),
                  ("seek", 0), ("read", -1)]
        for st in script:
            ra = getattr(real, st[0])(*st[1:])
            sa = getattr(sim, st[0])(*st[1:])
            if ra != sa:
                bad += 1
                print(f"fidelity simfile: {st} real={ra!r} sim={sa!r}")
        real.close()
    finally:
        import shutil
        shutil.rmtree(tmp, ignore_errors=True)
    print(f"fidelity simfile: {len(script)} operations, {bad} differences (SimFile('a+b') vs real file)")
    return bad


def main():
    return simfile_fidelity() + pipe_fidelity() + fresh_fidelity()
