"""Self-tests: determinism (same seed twice, other hash seed, other worker count),
stub fidelity.  `--quick-smoke` is the setup-time sanity run."""
import json
import os
import subprocess
import sys

import choices as choices_mod
import runner

HERE = os.path.dirname(os.path.abspath(__file__))
ALL = ["C01", "C03", "C04", "C05", "C06", "C07", "C17", "C18", "C19", "C20"]


def available():
    out = []
    for p in ALL:
        if os.path.exists(os.path.join(HERE, "props", p.lower() + ".py")):
            out.append(p)
    return out


def _digests_subprocess(pid, idx, hashseed, tier="quick"):
    env = dict(os.environ)
    env["PYTHONHASHSEED"] = str(hashseed)
    cmd = [sys.executable, os.path.join(HERE, "main.py"), pid, "--tier", tier,
           "--digest-runs", ",".join(map(str, idx))]
    out = subprocess.run(cmd, env=env, capture_output=True, text=True, timeout=1800)
    if out.returncode != 0:
        raise RuntimeError(f"{pid}: digest subprocess failed: {out.stderr[-1500:]}")
    return json.loads(out.stdout.strip().splitlines()[-1])


def determinism(pids, n):
    bad = 0
    for pid in pids:
        idx = list(range(n))
        chunks = [idx[i::4] for i in range(4)]
        import concurrent.futures as cf
        with cf.ThreadPoolExecutor(8) as ex:
            a = ex.map(lambda c: _digests_subprocess(pid, c, 0), chunks)
            b = ex.map(lambda c: _digests_subprocess(pid, c, 987654321), chunks)
            A, B = {}, {}
            for d in a:
                A.update(d)
            for d in b:
                B.update(d)
        with cf.ThreadPoolExecutor(8) as ex:
            C = {}
            for d in ex.map(lambda c: _digests_subprocess(pid, c, 0), chunks):
                C.update(d)
        mism = [i for i in A if A[i][1] != (B.get(i) or [None, None])[1]]
        mism0 = [i for i in A if A[i][0] != (C.get(i) or [None, None])[0]]
        print(f"determinism {pid}: {len(A)} seeds: fresh interpreter, same PYTHONHASHSEED, full event log: {len(mism0)} mismatches; "
              f"PYTHONHASHSEED 0 vs 987654321, log without interleaving-dependent entries: {len(mism)} mismatches")
        bad += len(mism) + len(mism0)
    return bad


def main(deep=False, smoke=False):
    import env
    env.load()
    import refavro, gen, streams, sched  # noqa
    pids = available()
    if smoke:
        # import every property module and execute two runs each, twice, same digests
        for pid in pids:
            for i in range(2):
                rs = choices_mod.run_seed(0, pid, i)
                runner._prop_mod = None
                c1, v1, d1, ch1 = runner.execute(pid, "quick", seed=rs)
                c2, v2, d2, ch2 = runner.execute(pid, "quick", seed=rs)
                if runner.run_digests(c1, ch1, v1, d1) != runner.run_digests(c2, ch2, v2, d2):
                    print(f"selftest: {pid} run {i} not deterministic", file=sys.stderr)
                    return 2
        print(f"selftest smoke ok: {', '.join(pids)}")
        return 0
    bad = determinism(pids, 2000 if deep else 120)
    import fidelity
    bad += fidelity.main()
    return 2 if bad else 0
