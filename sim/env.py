"""Import fastavro straight from the working tree under VERIF_REPO (default /repo).

* an import blocker keeps compiled extension mirrors (fastavro._read etc.) from ever
  shadowing the pure-Python sources the properties anchor;
* ``os.urandom`` as seen by the writer and ``uuid.uuid4`` are put behind seeded seams;
* ``loaded_files()`` reports which source files actually ran (goes into the evidence).
"""
import importlib.abc
import os
import random
import sys
import uuid

REPO = os.environ.get("VERIF_REPO", "/repo")

_BLOCKED = {
    "fastavro._read",
    "fastavro._write",
    "fastavro._schema",
    "fastavro._validation",
    "fastavro._logical_readers",
    "fastavro._logical_writers",
}


class _Blocker(importlib.abc.MetaPathFinder):
    def find_spec(self, fullname, path, target=None):
        if fullname in _BLOCKED:
            raise ImportError(f"{fullname} blocked by verif harness (pure-Python only)")
        return None


_fa = None


def load():
    """Import (once) and return the fastavro package from REPO."""
    global _fa
    if _fa is not None:
        return _fa
    sys.dont_write_bytecode = True
    if not any(isinstance(f, _Blocker) for f in sys.meta_path):
        sys.meta_path.insert(0, _Blocker())
    repo = os.path.abspath(REPO)
    if sys.path[0:1] != [repo]:
        sys.path.insert(0, repo)
    # locks created by code of the fastavro package become cooperative (see sched.SimLock); every
    # other caller of threading.Lock() keeps getting real locks
    import sched as _sched
    _sched.install_lock_seam()
    import fastavro  # noqa
    import fastavro.utils  # noqa
    import fastavro.json_read  # noqa
    import fastavro.json_write  # noqa
    import fastavro.validation  # noqa
    import fastavro.schema  # noqa

    root = os.path.join(repo, "fastavro")
    f = os.path.abspath(fastavro.__file__)
    if not f.startswith(root):
        raise RuntimeError(f"fastavro imported from {f}, expected under {root}")
    _fa = fastavro
    return fastavro


def loaded_files():
    out = {}
    for name, mod in sorted(sys.modules.items()):
        if name == "fastavro" or name.startswith("fastavro."):
            f = getattr(mod, "__file__", None)
            if f:
                out[name] = f
    return out


class SeededEntropy:
    """Deterministic stand-in for os.urandom / uuid.uuid4 (seeded per run)."""

    def __init__(self, seed):
        self.rng = random.Random(seed)
        self.calls = 0

    def urandom(self, n):
        self.calls += 1
        return bytes(self.rng.getrandbits(8) for _ in range(n))

    def uuid4(self):
        self.calls += 1
        return uuid.UUID(int=self.rng.getrandbits(128), version=4)


_real_uuid4 = uuid.uuid4


def seed_entropy(seed):
    """Route the writer's urandom and uuid.uuid4 through a seeded source."""
    load()
    ent = SeededEntropy(seed)
    import fastavro._write_py as w

    w.urandom = ent.urandom
    uuid.uuid4 = ent.uuid4
    return ent
