"""Deterministic thread scheduler.

Real ``threading.Thread``s, exactly one of which is ever runnable (baton passing over
per-task semaphores).  *Who runs next* is decided by a seeded PRNG (or a script, for
replay / schedule minimisation); the OS scheduler never has a choice to make.

Yield points are (a) every blocking / transfer operation of a simulated stream and
(b) the CPython 3.12 switch points of fastavro's own code as delivered by
``sys.monitoring`` local events (function entry, generator resume, return/yield, completion
of calls to C functions, backward jumps) -- a sound subset of the places where the real
interpreter can hand the GIL to another thread.
"""
import hashlib
import random
import sys
import threading
import types

TOOL_ID = 3
_tls = threading.local()
_instrumented = False
_n_code = 0


class SimAbort(BaseException):
    """Unwinds a task when the run is aborted (deadlock, step cap, stall)."""


class Deadlock(Exception):
    pass


class StepCap(Exception):
    pass


class Stall(Exception):
    pass


# --------------------------------------------------------------------------- monitoring
def _code_objects_of(module, root):
    seen = set()
    out = []

    def add_code(co):
        if id(co) in seen:
            return
        if not co.co_filename.startswith(root):
            return
        seen.add(id(co))
        out.append(co)
        for c in co.co_consts:
            if isinstance(c, types.CodeType):
                add_code(c)

    def visit(obj, depth=0):
        if isinstance(obj, types.FunctionType):
            add_code(obj.__code__)
        elif isinstance(obj, (staticmethod, classmethod)):
            visit(obj.__func__, depth)
        elif isinstance(obj, property):
            for f in (obj.fget, obj.fset, obj.fdel):
                if f is not None:
                    visit(f, depth)
        elif isinstance(obj, type) and depth < 2:
            if getattr(obj, "__module__", "").startswith("fastavro"):
                for v in list(vars(obj).values()):
                    visit(v, depth + 1)

    for v in list(vars(module).values()):
        visit(v)
    return out


def instrument(repo_root):
    """Register sys.monitoring local events on every code object of fastavro."""
    global _instrumented, _n_code
    if _instrumented:
        return _n_code
    mon = sys.monitoring
    E = mon.events
    mon.use_tool_id(TOOL_ID, "verif-sched")
    root = repo_root.rstrip("/") + "/fastavro"
    codes = []
    seen = set()
    for name, mod in sorted(sys.modules.items()):
        if (name == "fastavro" or name.startswith("fastavro.")) and mod is not None:
            for co in _code_objects_of(mod, root):
                if id(co) not in seen:
                    seen.add(id(co))
                    codes.append(co)
    ev = E.PY_START | E.PY_RESUME | E.PY_RETURN | E.PY_YIELD | E.CALL | E.JUMP
    for co in codes:
        mon.set_local_events(TOOL_ID, co, ev)

    def on_code(code, off, *a):
        t = getattr(_tls, "task", None)
        if t is not None:
            t.sched._mon_yield(t, code, off)

    def on_call(code, off, callable_, arg0):
        # CALL itself is not a switch point; it is enabled only so that C_RETURN /
        # C_RAISE are delivered for calls made from fastavro code.
        return None

    def on_cret(code, off, callable_, arg0):
        t = getattr(_tls, "task", None)
        if t is not None:
            t.sched._mon_yield(t, code, off)

    def on_jump(code, off, dest):
        if dest >= off:
            return mon.DISABLE  # forward jump: not an eval-breaker check
        t = getattr(_tls, "task", None)
        if t is not None:
            t.sched._mon_yield(t, code, off)

    mon.register_callback(TOOL_ID, E.PY_START, on_code)
    mon.register_callback(TOOL_ID, E.PY_RESUME, on_code)
    mon.register_callback(TOOL_ID, E.PY_RETURN, on_code)
    mon.register_callback(TOOL_ID, E.PY_YIELD, on_code)
    mon.register_callback(TOOL_ID, E.CALL, on_call)
    mon.register_callback(TOOL_ID, E.C_RETURN, on_cret)
    mon.register_callback(TOOL_ID, E.C_RAISE, on_cret)
    mon.register_callback(TOOL_ID, E.JUMP, on_jump)
    _instrumented = True
    _n_code = len(codes)
    return _n_code


# ------------------------------------------------------------------------------ locks
_real_lock = threading.Lock
_real_rlock = threading.RLock


class SimLock:
    """Cooperative stand-in for threading.Lock / RLock objects created by the code under
    test (env.load installs the factory before fastavro is imported).  A simulated task that
    finds the lock taken parks in the scheduler instead of blocking for real -- the owner may
    be a task the scheduler has pre-empted inside the critical section, and a real block would
    hang the whole simulation.  Outside a simulated run it behaves like the real lock."""

    def __init__(self, reentrant=False):
        self._l = _real_rlock() if reentrant else _real_lock()
        self._re = reentrant
        self._owner = None
        self._depth = 0

    def acquire(self, blocking=True, timeout=-1):
        t = getattr(_tls, "task", None)
        if t is None or not blocking:
            ok = self._l.acquire(blocking, timeout) if blocking else self._l.acquire(False)
            if ok:
                self._owner = t
                self._depth += 1
            return ok
        while True:
            if self._re and self._owner is t and self._depth > 0:
                self._l.acquire()
                self._depth += 1
                return True
            if self._l.acquire(False):
                self._owner = t
                self._depth += 1
                return True
            t.sched.probe("lock_contended")
            t.sched.block_until(lambda: self._depth == 0, "lock-wait")

    def release(self):
        self._depth -= 1
        if self._depth == 0:
            self._owner = None
        self._l.release()
        t = getattr(_tls, "task", None)
        if t is not None:
            t.sched.yield_point("lock-release")

    def locked(self):
        return self._depth > 0

    def __enter__(self):
        self.acquire()
        return self

    def __exit__(self, *a):
        self.release()


def _from_fastavro():
    try:
        return str(sys._getframe(2).f_globals.get("__name__", "")).startswith("fastavro")
    except ValueError:
        return False


def _lock_factory():
    return SimLock(False) if _from_fastavro() else _real_lock()


def _rlock_factory():
    return SimLock(True) if _from_fastavro() else _real_rlock()


def install_lock_seam():
    """threading.Lock / threading.RLock hand out cooperative locks to callers inside the
    fastavro package (at import time or later) and real locks to everybody else."""
    threading.Lock = _lock_factory
    threading.RLock = _rlock_factory


def uninstall_lock_seam():
    threading.Lock = _real_lock
    threading.RLock = _real_rlock


# ------------------------------------------------------------------------------ tasks
class Task:
    __slots__ = ("name", "idx", "fn", "sched", "sem", "done", "result", "blocked",
                 "thread", "prio", "steps", "loc")

    def __init__(self, sched, idx, name, fn):
        self.sched = sched
        self.idx = idx
        self.name = name
        self.fn = fn
        self.sem = threading.Semaphore(0)
        self.done = False
        self.result = None
        self.blocked = None  # (cond, tag) while parked
        self.thread = None
        self.prio = 0
        self.steps = 0
        self.loc = "start"


class Scheduler:
    """strategy: ("uniform",) | ("sticky", per_mille_stay) | ("pct", depth, est_steps)
                 | ("script", [(from_task, own_step, to_task, forced), ...])"""

    def __init__(self, seed, strategy=("uniform",), max_steps=200000, monitor=True,
                 stall_s=20.0):
        self.rng = random.Random(seed)
        self.strategy = strategy
        self.tasks = []
        self.cur = None
        self.step = 0
        self.max_steps = max_steps
        self.monitor = monitor
        self.abort = None
        self.switches = []      # (step, from_idx, loc, to_idx)
        self.decisions = []     # (step, to_idx) for every non-forced actual switch
        self.pairs = set()      # (loc left, loc entered)
        self.main_sem = threading.Semaphore(0)
        self.stall_s = stall_s
        self.probes = {}
        self._sig = hashlib.blake2b(digest_size=8)
        self._script = None
        self._script_i = 0
        if strategy[0] == "script":
            # entries (from_task, from_task_own_step, to_task, forced): positions are relative
            # to the task's own yield count, so removing one pre-emption does not shift the others
            self._script = {(a, b, 1 if f else 0): c for (a, b, c, f) in strategy[1]}
        self._pct_points = None

    # -- public ---------------------------------------------------------------
    def spawn(self, name, fn):
        t = Task(self, len(self.tasks), name, fn)
        self.tasks.append(t)
        return t

    def probe(self, name):
        self.probes[name] = self.probes.get(name, 0) + 1

    def run(self):
        """Run all tasks to completion under the chosen strategy.  Returns
        {name: ("ok", value) | ("exc", exception)}.  Raises Deadlock / StepCap / Stall."""
        n = len(self.tasks)
        if self.strategy[0] == "pct":
            depth, est = self.strategy[1], max(2, self.strategy[2])
            prios = list(range(depth, depth + n))
            self.rng.shuffle(prios)
            for t, p in zip(self.tasks, prios):
                t.prio = p
            self._pct_points = sorted(self.rng.randrange(1, est) for _ in range(depth - 1))
            self._pct_next = 0
        for t in self.tasks:
            t.thread = threading.Thread(target=self._body, args=(t,), daemon=True,
                                        name=f"sim-{t.name}")
            t.thread.start()
        first = self._choose(None, forced=True)
        self.decisions.append((-1, 0, first.idx, 1))
        self.cur = first
        first.sem.release()
        last = -1
        while True:
            if self.main_sem.acquire(timeout=self.stall_s):
                break
            if self.step == last:
                self.abort = Stall(f"no yield point reached for {self.stall_s}s "
                                   f"(task {self.cur.name if self.cur else '?'} at {self.cur.loc if self.cur else '?'})")
                raise self.abort
            last = self.step
        for t in self.tasks:
            t.thread.join(timeout=5)
        if self.abort is not None:
            raise self.abort
        return {t.name: t.result for t in self.tasks}

    def signature(self):
        return self._sig.hexdigest()

    # -- called from task threads -----------------------------------------------
    def yield_point(self, tag):
        t = getattr(_tls, "task", None)
        if t is None or t.sched is not self:
            return
        t.loc = tag
        self._yield(t)

    def block_until(self, cond, tag):
        t = getattr(_tls, "task", None)
        if t is None or t.sched is not self:
            raise RuntimeError("block_until outside a simulated task")
        t.loc = tag
        while not cond():
            t.blocked = (cond, tag)
            nxt = self._choose(t, forced=True)
            if nxt is None:
                self._abort_all(Deadlock(self._describe_blocked()))
                raise SimAbort()
            self._switch(t, nxt, forced=True)
            t.blocked = None

    def _mon_yield(self, t, code, off):
        if t.sched is not self or self.cur is not t or not self.monitor:
            return
        t.loc = f"{code.co_name}:{off}"
        self._yield(t)

    # -- internals ----------------------------------------------------------------
    def _body(self, t):
        _tls.task = t
        t.sem.acquire()
        try:
            if self.abort is None:
                try:
                    t.result = ("ok", t.fn())
                except SimAbort:
                    t.result = ("abort", None)
                except Exception as e:  # noqa
                    t.result = ("exc", e)
        finally:
            _tls.task = None
            t.done = True
            if self.abort is not None:
                # aborted run: whoever is last wakes main
                if all(x.done for x in self.tasks):
                    self.main_sem.release()
            else:
                nxt = self._choose(t, forced=True)
                if nxt is None:
                    if all(x.done for x in self.tasks):
                        self.main_sem.release()
                    else:
                        self._abort_all(Deadlock(self._describe_blocked()))
                        if all(x.done for x in self.tasks):
                            self.main_sem.release()
                else:
                    self._note_switch(t, nxt, True)
                    self.cur = nxt
                    nxt.sem.release()

    def _yield(self, t):
        if self.abort is not None:
            raise SimAbort()
        self.step += 1
        t.steps += 1
        if self.step > self.max_steps:
            self._abort_all(StepCap(f"more than {self.max_steps} scheduler steps"))
            raise SimAbort()
        nxt = self._choose(t, forced=False)
        if nxt is not t and nxt is not None:
            self.decisions.append((t.idx, t.steps, nxt.idx, 0))
            self._switch(t, nxt, forced=False)

    def _switch(self, t, nxt, forced):
        self._note_switch(t, nxt, forced)
        self.cur = nxt
        nxt.sem.release()
        t.sem.acquire()
        if self.abort is not None:
            raise SimAbort()

    def _note_switch(self, t, nxt, forced=False):
        if forced:
            self.decisions.append((t.idx, t.steps, nxt.idx, 1))
        self.switches.append((self.step, t.idx, t.loc, nxt.idx))
        self.pairs.add((t.loc, nxt.loc))
        self._sig.update(f"{t.idx}@{t.loc}>{nxt.idx};".encode())

    def _runnable(self, exclude_blocked_self=None):
        out = []
        for x in self.tasks:
            if x.done:
                continue
            if x.blocked is not None:
                if not x.blocked[0]():
                    continue
            out.append(x)
        return out

    def _choose(self, t, forced):
        """Pick the next task.  forced=True: the current one cannot continue."""
        cands = self._runnable()
        if forced and t is not None:
            cands = [x for x in cands if x is not t]
        if not cands:
            return None
        kind = self.strategy[0]
        if kind == "script":
            key = ((t.idx, t.steps) if t is not None else (-1, 0)) + (1 if forced else 0,)
            want = self._script.get(key)
            if want is not None:
                for x in cands:
                    if x.idx == want:
                        return x
            if forced or t is None or t not in cands:
                return min(cands, key=lambda x: x.idx)
            return t
        if kind == "pct":
            pts = self._pct_points
            while self._pct_next < len(pts) and pts[self._pct_next] <= self.step:
                if t is not None:
                    t.prio = -(self._pct_next + 1) + 0  # drop below all initial priorities
                self._pct_next += 1
            return max(cands, key=lambda x: (x.prio, -x.idx))
        if len(cands) == 1:
            return cands[0]
        if kind == "sticky" and not forced and t in cands:
            if self.rng.randrange(1000) < self.strategy[1]:
                return t
            others = [x for x in cands if x is not t]
            return others[self.rng.randrange(len(others))]
        return cands[self.rng.randrange(len(cands))]

    def _abort_all(self, exc):
        if self.abort is None:
            self.abort = exc
        for x in self.tasks:
            if not x.done:
                x.sem.release()

    def _describe_blocked(self):
        return "deadlock: " + ", ".join(
            f"{x.name}:{'done' if x.done else (x.blocked[1] if x.blocked else 'runnable')}"
            for x in self.tasks)
