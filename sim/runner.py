"""Execution engine shared by all checks: seeded runs on a fork pool, violation handling
(known findings, minimisation, replay files), determinism recheck, evidence."""
import concurrent.futures as cf
import faulthandler
import hashlib
import importlib
import json
import multiprocessing as mp
import os
import pickle
import select
import signal
import subprocess
import sys
import time
import traceback

import choices as choices_mod
from choices import Choices

VERIF_DIR = os.path.dirname(os.path.dirname(os.path.abspath(__file__)))
EVIDENCE_DIR = os.path.join(VERIF_DIR, "evidence")
REPLAY_DIR = os.path.join(VERIF_DIR, "replays")
KNOWN_FILE = os.path.join(VERIF_DIR, "KNOWN_FINDINGS.txt")
KEY_CAP = 3_000_000   # distinct-case keys kept in memory; beyond it the count is a lower bound


def canon(o):
    """JSON-able canonical form of arbitrary observation values (bytes, floats by bit
    pattern, tuples, sets, exceptions)."""
    import datetime
    import decimal
    import struct
    import uuid
    if o is None or isinstance(o, (bool, int, str)):
        return o
    if isinstance(o, float):
        return {"f": struct.pack(">d", o).hex()}
    if isinstance(o, (bytes, bytearray)):
        return {"b": bytes(o).hex()}
    import collections.abc as _abc
    import array as _array
    if isinstance(o, _abc.Mapping):
        return {"d": [[canon(k), canon(v)] for k, v in o.items()]}
    if isinstance(o, (list, _array.array)):
        return [canon(x) for x in o]
    if isinstance(o, tuple):
        return {"t": [canon(x) for x in o]}
    if isinstance(o, (set, frozenset)):
        return {"s": sorted(json.dumps(canon(x), sort_keys=True) for x in o)}
    if isinstance(o, decimal.Decimal):
        return {"dec": str(o)}
    if isinstance(o, (datetime.datetime, datetime.date, datetime.time)):
        return {"dt": o.isoformat(), "k": type(o).__name__}
    if isinstance(o, uuid.UUID):
        return {"uuid": str(o)}
    if isinstance(o, BaseException):
        return {"exc": type(o).__name__}
    if isinstance(o, type):
        return {"type": o.__name__}
    return {"repr": type(o).__name__}


def run_digests(ctx, ch, vio, disc):
    """[full digest, hash-seed-robust digest] of one run's event log."""
    v = vio.as_dict() if vio else None
    robust = digest_of([ctx.log, ch.record, v["sig"] if v else None, disc])
    full = digest_of([ctx.log, ctx.log_sched, ch.record, v, disc])
    return [full, robust]


def digest_of(o):
    return hashlib.sha256(json.dumps(canon(o), sort_keys=True, default=str).encode()).hexdigest()[:16]


def jsonable(o):
    """Human-readable JSON form for scenarios in replay / evidence files."""
    if o is None or isinstance(o, (bool, int, str)):
        return o
    if isinstance(o, float):
        if o != o or o in (float("inf"), float("-inf")):
            return {"float": repr(o)}
        return o
    if isinstance(o, (bytes, bytearray)):
        b = bytes(o)
        return {"bytes": b.hex() if len(b) <= 64 else b[:64].hex() + f"...({len(b)})"}
    import collections.abc as _abc
    import array as _array
    if isinstance(o, _abc.Mapping):
        return {str(k): jsonable(v) for k, v in o.items()}
    if isinstance(o, _array.array):
        return {"array.array": list(o)}
    if isinstance(o, (list, tuple)):
        r = [jsonable(x) for x in o]
        return {"tuple": r} if isinstance(o, tuple) else r
    if isinstance(o, BaseException):
        return {"exception": type(o).__name__, "msg": _no_addr(str(o))[:200]}
    return _no_addr(repr(o))[:200]


_ADDR = None


def _no_addr(s):
    """Memory addresses in reprs are the classic determinism breaker."""
    global _ADDR
    if _ADDR is None:
        import re
        _ADDR = re.compile(r"0x[0-9a-fA-F]{6,}")
    return _ADDR.sub("0x?", s)


class Violation(Exception):
    """Raised by property code: carries clause / kind / signature / detail."""

    def __init__(self, clause, kind, detail=None, sig=None, scenario=None):
        super().__init__(f"{clause}:{kind}")
        self.clause = clause
        self.kind = kind
        self.detail = detail
        self.sig = sig or f"{clause}:{kind}"
        self.scenario = scenario

    def cls(self):
        return (self.clause, self.kind)

    def as_dict(self):
        return {"clause": self.clause, "kind": self.kind, "sig": self.sig,
                "detail": jsonable(self.detail), "scenario": jsonable(self.scenario)}


class Discard(Exception):
    """Run is outside the property's domain (e.g. non-conforming record accepted)."""

    def __init__(self, reason):
        super().__init__(reason)
        self.reason = reason


class RunCtx:
    """Per-run accumulator handed to property code."""

    def __init__(self, tier):
        self.tier = tier
        self.stats = {}
        self.faults = {}
        self.probes = {}
        self.evals = 0
        self.steps = 0
        self.keys = []
        self.log = []       # event log for the determinism digest
        self.log_sched = [] # schedule-dependent part (interleaving signature, step counts)
        self._sample = None
        self.known = []     # known findings hit (sig)

    @property
    def sample(self):
        return self._sample

    @sample.setter
    def sample(self, v):
        # a snapshot, not the live objects: nothing of a scenario may stay alive after it ended
        # (a later scenario of the same run must be able to re-use the freed objects' addresses)
        self._sample = jsonable(v) if v is not None else None

    def stat(self, k, n=1):
        self.stats[k] = self.stats.get(k, 0) + n

    def fault(self, k, n=1):
        self.faults[k] = self.faults.get(k, 0) + n

    def probe(self, k, n=1):
        self.probes[k] = self.probes.get(k, 0) + n

    def key(self, *parts):
        """One distinct non-trivial case."""
        self.keys.append((hashlib.blake2b(repr(parts).encode(), digest_size=8).digest(), 1))

    def keyw(self, parts, weight):
        """A family of ``weight`` distinct non-trivial cases identified by ``parts``
        (e.g. all enumerated faults of one file)."""
        if weight > 0:
            self.keys.append((hashlib.blake2b(repr(parts).encode(), digest_size=8).digest(), weight))

    def ev(self, *parts):
        self.log.append(parts)

    def ev_sched(self, *parts):
        """Events that depend on the exact interleaving.  fastavro itself iterates over a
        set in parse_field, so under another PYTHONHASHSEED the same scheduler seed maps to
        a (slightly) different interleaving: these events are compared only between
        interpreters with the same hash seed."""
        self.log_sched.append(parts)


def load_known():
    known = {}
    fixed = []
    if os.path.exists(KNOWN_FILE):
        for line in open(KNOWN_FILE):
            line = line.strip()
            if line.startswith("known:"):
                parts = line.split(None, 3)
                # known: property=Cxx sig=<sig> text
                prop = parts[1].split("=", 1)[1]
                sig = parts[2].split("=", 1)[1]
                known[(prop, sig)] = parts[3] if len(parts) > 3 else ""
            elif line.startswith("fixed:"):
                fixed.append(line)
    return known, fixed


_prop_mod = None


def prop_module(pid):
    global _prop_mod
    if _prop_mod is None or _prop_mod.ID != pid:
        _prop_mod = importlib.import_module("props." + pid.lower())
        if hasattr(_prop_mod, "setup"):
            _prop_mod.setup()
    return _prop_mod


def execute(pid, tier, seed=None, recorded=None):
    """One simulated run.  Returns (ctx, violation|None, discard|None, choices)."""
    mod = prop_module(pid)
    ch = Choices(seed=seed, recorded=recorded)
    ctx = RunCtx(tier)
    # os.urandom (default sync markers) and uuid.uuid4 behind a seeded seam for EVERY run;
    # a constant so that replay from a recorded choice list sees the same stream
    import env
    env.seed_entropy(20261001)
    vio = None
    disc = None
    limit = float(os.environ.get("VERIF_RUN_LIMIT_S", 0)) or (90.0 if tier == "quick" else 180.0)
    armed = _arm_run_timer(limit)
    try:
        # a run may consist of several scenarios executed one after the other in the same
        # process (SUBRUNS): state that wrongly outlives a scenario -- a cache keyed by the
        # identity of a dropped schema object, a module-level table -- then shows WITHIN the
        # run and is reproduced by replaying the run, which always executes in a fresh fork
        for _k in range(getattr(mod, "SUBRUNS", 1)):
            ch.mark_subrun()
            mod.run_one(ch, ctx)
    except Violation as v:
        vio = v
    except Discard as d:
        disc = d.reason
    except RunTimeout:
        # no simulated run of the unchanged tree comes near the limit (the slowest take a few
        # seconds): a run that does not finish is reported like a stall, with its replay
        vio = Violation("liveness", "run-time-limit-exceeded", detail={"limit_s": limit, "choices_drawn": len(ch.record)})
    finally:
        if armed:
            signal.setitimer(signal.ITIMER_REAL, 0)
    return ctx, vio, disc, ch


class RunTimeout(BaseException):
    pass


def _on_alarm(signum, frame):
    raise RunTimeout()


def _arm_run_timer(limit):
    """Wall-clock limit for one run (main thread of the executing process only)."""
    import threading
    if threading.current_thread() is not threading.main_thread():
        return False
    signal.signal(signal.SIGALRM, _on_alarm)
    signal.setitimer(signal.ITIMER_REAL, limit)
    return True


class IsolatedFailure(Exception):
    pass


def isolated(func, args=(), timeout=900.0):
    """Run func(*args) in a fork of this process and return its (pickled) result.  The
    calling process never executes property code itself, so nothing a run leaves behind in
    process state (module globals, caches, allocator state) can influence another run except
    where that is intended (the runs of one batch, which are re-executed together for
    history-dependent violations)."""
    r, w = os.pipe()
    pid = os.fork()
    if pid == 0:
        try:
            os.close(r)
            try:
                res = ("ok", func(*args))
            except BaseException:  # noqa
                res = ("error", traceback.format_exc())
            try:
                data = pickle.dumps(res, protocol=pickle.HIGHEST_PROTOCOL)
            except Exception:  # noqa
                data = pickle.dumps(("error", "unpicklable result: " + traceback.format_exc()))
            i = 0
            while i < len(data):
                i += os.write(w, data[i:i + (1 << 16)])
        finally:
            os._exit(0)
    os.close(w)
    chunks = []
    end = time.time() + timeout
    try:
        while True:
            rl, _, _ = select.select([r], [], [], max(0.0, end - time.time()))
            if not rl:
                try:
                    os.kill(pid, signal.SIGKILL)
                except ProcessLookupError:
                    pass
                raise IsolatedFailure(f"isolated call exceeded {timeout:.0f}s and was killed")
            b = os.read(r, 1 << 20)
            if not b:
                break
            chunks.append(b)
    finally:
        os.close(r)
        try:
            os.waitpid(pid, 0)
        except ChildProcessError:
            pass
    if not chunks:
        raise IsolatedFailure("isolated call died without a result")
    res = pickle.loads(b"".join(chunks))
    if res[0] != "ok":
        raise IsolatedFailure("isolated call failed:\n" + str(res[1]))
    return res[1]


def _merge(dst, src):
    for k, v in src.items():
        dst[k] = dst.get(k, 0) + v


def _work(pid, tier, verif_seed, start, count, known_sigs, want_digests, deadline):
    """Pool worker: every batch runs in its own fork, so a batch starts from the pristine
    state of the parent (modules imported, fastavro never called)."""
    try:
        return isolated(_work_batch, (pid, tier, verif_seed, start, count, known_sigs, want_digests, deadline),
                        timeout=max(120.0, deadline - time.time() + 240.0))
    except IsolatedFailure as e:
        return {"runs": 0, "evals": 0, "steps": 0, "stats": {}, "faults": {}, "probes": {}, "keys": {}, "samples": [],
                "discarded": {}, "violation": None, "known": {}, "digests": {}, "error": f"batch {start}..{start + count - 1}: {e}",
                "first": start, "last": start}


def _work_batch(pid, tier, verif_seed, start, count, known_sigs, want_digests, deadline):
    """Runs [start, start+count) in this (forked) process.  Returns an aggregate dict."""
    faulthandler.dump_traceback_later(max(60, int(deadline - time.time()) + 500), exit=True)
    agg = {"runs": 0, "evals": 0, "steps": 0, "stats": {}, "faults": {}, "probes": {},
           "keys": {}, "samples": [], "discarded": {}, "violation": None, "known": {},
           "digests": {}, "error": None, "first": start, "last": start}
    try:
        for i in range(start, start + count):
            if time.time() > deadline:
                break
            rs = choices_mod.run_seed(verif_seed, pid, i)
            # the runs of one batch share this (forked, initially pristine) process; a violation
            # is afterwards re-executed alone in a fresh fork, and only if it does not show there
            # is it treated as history-dependent (replay = the batch prefix, see run_check)
            r = _run_job(pid, tier, rs, i in want_digests, len(agg["samples"]) < 2)
            agg["runs"] += 1
            agg["last"] = i
            agg["evals"] += r["evals"]
            agg["steps"] += r["steps"]
            _merge(agg["stats"], r["stats"])
            _merge(agg["faults"], r["faults"])
            _merge(agg["probes"], r["probes"])
            for kk, w in r["keys"]:
                if w > agg["keys"].get(kk, 0):
                    agg["keys"][kk] = w
            for sg in r["known"]:
                agg["known"][sg] = agg["known"].get(sg, 0) + 1
            if r["digest"] is not None:
                agg["digests"][i] = r["digest"]
            if r["sample"] is not None and len(agg["samples"]) < 2:
                agg["samples"].append(r["sample"])
            disc = r["discard"]
            if disc:
                agg["discarded"][disc] = agg["discarded"].get(disc, 0) + 1
            if r["v"] is not None and r["v"]["kind"] == "run-time-limit-exceeded":
                # slow, or really not terminating?  Once more, alone in a fresh fork, with ten times the limit.
                try:
                    os.environ["VERIF_RUN_LIMIT_S"] = str(10 * (90.0 if tier == "quick" else 180.0))
                    r2 = isolated(_execute_job, (pid, tier, r["record"]), timeout=2400.0)
                finally:
                    os.environ.pop("VERIF_RUN_LIMIT_S", None)
                if r2["v"] is None:
                    agg["stats"]["slow_runs_over_limit"] = agg["stats"].get("slow_runs_over_limit", 0) + 1
                    r["v"] = None
                else:
                    r["v"] = r2["v"]
                    r["record"] = r2["record"]
            if r["v"] is not None:
                if r["v"]["sig"] in known_sigs:
                    agg["known"][r["v"]["sig"]] = agg["known"].get(r["v"]["sig"], 0) + 1
                    continue
                agg["violation"] = {"run_index": i, "run_seed": rs, "choices": r["record"], "v": r["v"], "batch_start": start}
                break
    except BaseException:  # harness error: never a pass
        agg["error"] = f"property={pid} tier={tier} verif_seed={verif_seed} run_index={agg['last'] + (1 if agg['runs'] else 0)}\n" + traceback.format_exc()
    finally:
        faulthandler.cancel_dump_traceback_later()
    return agg


# ------------------------------------------------------------------------- minimisation
def _run_job(pid, tier, run_seed, want_digest, want_sample):
    """(runs in its own fork) one seeded run; picklable summary."""
    ctx, vio, disc, ch = execute(pid, tier, seed=run_seed)
    return {"evals": ctx.evals, "steps": ctx.steps, "stats": ctx.stats, "faults": ctx.faults, "probes": ctx.probes,
            "keys": ctx.keys, "known": ctx.known, "discard": disc,
            "digest": run_digests(ctx, ch, vio, disc) if want_digest else None,
            "sample": ctx.sample if want_sample else None,
            "v": vio.as_dict() if vio is not None else None,
            "record": list(ch.record) if vio is not None else None}


def _execute_job(pid, tier, recorded):
    """(runs in a fresh fork) execute one recorded choice list; picklable summary."""
    ctx, vio, disc, ch = execute(pid, tier, recorded=recorded)
    return {"v": vio.as_dict() if vio is not None else None, "cls": list(vio.cls()) if vio is not None else None,
            "record": list(ch.record), "marks": list(ch.marks), "count_pos": ch.count_pos, "discard": disc}


def _sequence_job(pid, tier, verif_seed, start, end, known_sigs=()):
    """(runs in a fresh fork) execute the run indices start..end one after the other in ONE
    process, through the very function the check uses for a batch (same bookkeeping between
    the runs, hence the same allocation pattern); report the violation it stops at."""
    agg = _work_batch(pid, tier, verif_seed, start, end - start + 1, frozenset(known_sigs), frozenset(range(0, 8)),
                      time.time() + 3600.0)
    if agg.get("error"):
        raise RuntimeError(agg["error"])
    v = agg["violation"]
    if v is None:
        return None
    return {"v": v["v"], "cls": [v["v"]["clause"], v["v"]["kind"]], "run_index": v["run_index"]}


def shrink_sequence(pid, tier, verif_seed, start, end, cls, deadline, known_sigs):
    """History-dependent violation at run index `end` of the batch that began at `start`:
    find a late start' such that the contiguous range start'..end still ends in the same
    violation (each candidate: the whole range in one fresh fork)."""
    def fails(s0):
        try:
            out = isolated(_sequence_job, (pid, tier, verif_seed, s0, end, sorted(known_sigs)), timeout=900.0)
        except IsolatedFailure:
            return False
        return bool(out and out["run_index"] == end and tuple(out["cls"]) == tuple(cls))

    if not fails(start):
        return start, False
    best = start
    step = 1
    while end - step > start and time.time() < deadline:   # shortest suffix first: end-1, end-2, end-4, ...
        if fails(end - step):
            best = end - step
            break
        step *= 2
    return best, True


def _probes_job(pid):
    mod = prop_module(pid)
    return [tuple(x) for x in mod.finding_probes()] if hasattr(mod, "finding_probes") else []


def _refine_job(pid, minimised):
    mod = prop_module(pid)
    return jsonable(mod.refine(minimised))


def execute_isolated(pid, tier, recorded):
    """execute() in a fork of this (pristine) process."""
    r = isolated(_execute_job, (pid, tier, list(recorded)))
    return r["v"], (tuple(r["cls"]) if r["cls"] else None), r["record"]


def shrink(pid, tier, rec, cls, deadline, known_sigs):
    """Hypothesis-style shrinking of the recorded choice list while the same violation
    class persists."""
    def fails(cand):
        # every candidate runs in its own fork of this pristine process
        try:
            r = isolated(_execute_job, (pid, tier, list(cand)), timeout=400.0)
        except IsolatedFailure:
            return None
        if r["v"] is not None and tuple(r["cls"]) == tuple(cls) and r["v"]["sig"] not in known_sigs:
            last["marks"] = list(r["marks"])
            last["count_pos"] = r["count_pos"]
            return r["record"]
        return None

    last = {"marks": [], "count_pos": None}
    best = list(rec)
    r = fails(best)
    if r is None:
        return rec, False
    best = r
    improved = True
    tries = 0
    while improved and time.time() < deadline:
        improved = False
        # delete whole marked operations (last first), lowering the operation count with them
        marks, cpos = list(last["marks"]), last["count_pos"]
        k = len(marks) - 1
        while k >= 0 and time.time() < deadline:
            s0 = marks[k]
            e0 = marks[k + 1] if k + 1 < len(marks) else len(best)
            if s0 < e0 <= len(best):
                cand = best[:s0] + best[e0:]
                if cpos is not None and cpos < s0 and cand[cpos] > 0:
                    cand[cpos] -= 1
                tries += 1
                r = fails(cand)
                if r is not None and len(r) < len(best):
                    best = r
                    improved = True
                    marks, cpos = list(last["marks"]), last["count_pos"]
                    k = min(k, len(marks))
            k -= 1
        # delete spans
        span = max(1, len(best) // 2)
        while span >= 1 and time.time() < deadline:
            i = 0
            while i < len(best) and time.time() < deadline:
                cand = best[:i] + best[i + span:]
                tries += 1
                r = fails(cand)
                if r is not None and (len(r) < len(best) or r < best):
                    best = r
                    improved = True
                else:
                    i += span
            span //= 2
        # zero spans / lower values
        i = 0
        while i < len(best) and time.time() < deadline:
            if best[i] != 0:
                for nv in (0, best[i] // 2, best[i] - 1):
                    if nv < best[i]:
                        cand = best[:i] + [nv] + best[i + 1:]
                        tries += 1
                        r = fails(cand)
                        if r is not None and (len(r), r) < (len(best), best):
                            best = r
                            improved = True
                            break
            i += 1
    return best, True


def write_replay(pid, tier, verif_seed, viol, minimised, min_v, sequence=None):
    os.makedirs(REPLAY_DIR, exist_ok=True)
    body = {
        "property": pid, "tier": tier, "verif_seed": verif_seed,
        "mode": "sequence" if sequence else "single",
        "run_index": viol["run_index"], "run_seed": viol["run_seed"],
        "original_choices_len": len(viol["choices"]),
        "choices": minimised,
        "clause": min_v["clause"], "kind": min_v["kind"], "sig": min_v["sig"],
        "violation": min_v,
    }
    if sequence:
        # the violation shows only after earlier runs in the same process (state that outlives a
        # run: a cache keyed by object identity, a module-level table ...): the replay is the
        # range [first, last] of run indices, executed one after the other in one fresh process
        body["sequence"] = list(sequence)
    dg = hashlib.sha256(json.dumps([body["choices"], body.get("sequence")]).encode()).hexdigest()[:10]
    path = os.path.join(REPLAY_DIR, f"{pid}-{dg}.json")
    with open(path, "w") as f:
        json.dump(body, f, indent=1, default=str)
    return path


def replay(pid, path):
    body = json.load(open(path))
    tier = body.get("tier", "quick")
    known, _ = load_known()
    known_sigs = {s for (p, s) in known if p == pid}
    if body.get("probe"):
        # a fixed (finding / regression) probe: re-run the probes and look for the same one
        prop_module(pid)
        for sig, reproduces, text in isolated(_probes_job, (pid,)):
            if sig == body["probe"]:
                print(json.dumps({"probe": sig, "reproduces": reproduces, "text": text}))
                if reproduces and sig in known_sigs:
                    print(f"KNOWN-FINDING: property={pid} {sig}")
                    return 0
                if reproduces:
                    print(f"VIOLATION property={pid} replay={path}")
                    return 1
        print("replay: probe no longer reproduces")
        return 0
    prop_module(pid)
    if body.get("mode") == "sequence":
        out = isolated(_sequence_job, (pid, tier, body["verif_seed"], body["sequence"][0], body["sequence"][1], sorted(known_sigs)))
        vd = out["v"] if out and out["run_index"] == body["sequence"][1] else None
        print(f"replay: run indices {body['sequence'][0]}..{body['sequence'][1]} in one fresh process")
    else:
        vd = isolated(_execute_job, (pid, tier, body["choices"]))["v"]
    if vd is None:
        print("replay: no violation reproduced")
        return 0
    same = (vd["clause"], vd["kind"]) == (body["clause"], body["kind"])
    print(json.dumps(vd, indent=1, default=str)[:6000])
    if not same:
        print(f"replay: a different violation class than recorded ({body['clause']}:{body['kind']})")
    if vd["sig"] in known_sigs:
        print(f"KNOWN-FINDING: property={pid} {vd['sig']}")
        return 0
    print(f"VIOLATION property={pid} replay={path}")
    return 1


# ------------------------------------------------------------------------------- driver
def determinism_recheck(pid, tier, verif_seed, digests):
    """Re-execute the sampled run indices in two fresh interpreters: one with the same
    PYTHONHASHSEED (full event-log digest must match) and one with another hash seed (the
    hash-seed-robust digest must match)."""
    if not digests:
        return {"seeds": 0, "mismatches": 0}
    idx = sorted(digests)
    res = {"seeds": len(idx), "mismatches": 0}
    for label, hs, col in (("same_hashseed_fresh_interpreter", os.environ.get("PYTHONHASHSEED", "0"), 0),
                           ("other_hashseed_12345", "12345", 1)):
        env = dict(os.environ)
        env["PYTHONHASHSEED"] = hs
        env["VERIF_SEED"] = str(verif_seed)
        cmd = [sys.executable, os.path.join(os.path.dirname(__file__), "main.py"), pid,
               "--tier", tier, "--digest-runs", ",".join(map(str, idx))]
        out = subprocess.run(cmd, env=env, capture_output=True, text=True, timeout=900)
        if out.returncode != 0:
            res["mismatches"] = -1
            res["error"] = out.stderr[-2000:]
            return res
        got = json.loads(out.stdout.strip().splitlines()[-1])
        mism = [i for i in idx if (got.get(str(i)) or [None, None])[col] != digests[i][col]]
        res[label] = {"compared": "full event log" if col == 0 else "event log without interleaving-dependent entries",
                      "mismatches": len(mism), "indices": mism[:5]}
        res["mismatches"] += len(mism)
    return res


def digest_runs(pid, tier, verif_seed, idx):
    out = {}
    for i in idx:
        rs = choices_mod.run_seed(verif_seed, pid, i)
        ctx, vio, disc, ch = execute(pid, tier, seed=rs)
        out[str(i)] = run_digests(ctx, ch, vio, disc)
    print(json.dumps(out))
    return 0


def run_check(pid, tier, verif_seed, budget_s=None, max_runs=None, workers=None):
    t0 = time.time()
    mod = prop_module(pid)
    known, fixed = load_known()
    known_sigs = frozenset(s for (p, s) in known if p == pid)
    if budget_s is None:
        budget_s = float(os.environ.get("VERIF_BUDGET_S", 0)) or (mod.QUICK_BUDGET_S if tier == "quick" else 600.0)
    if max_runs is None:
        env_runs = os.environ.get("VERIF_RUNS")
        max_runs = int(env_runs) if env_runs else (mod.QUICK_RUNS if tier == "quick" else mod.THOROUGH_RUNS)
    workers = workers or int(os.environ.get("VERIF_WORKERS", 0)) or min(16, os.cpu_count() or 1)
    batch = getattr(mod, "BATCH", 50)
    deadline = t0 + budget_s
    print(f"VERIF_SEED={verif_seed} property={pid} tier={tier} budget_s={budget_s} max_runs={max_runs} workers={workers}", flush=True)

    # fixed finding probes (known-bad input classes kept out of the random workload)
    known_hits = {}
    probe_reports = []
    if hasattr(mod, "finding_probes"):
        for sig, reproduces, text in isolated(_probes_job, (pid,)):
            if (pid, sig) in known:
                if reproduces:
                    known_hits[sig] = known_hits.get(sig, 0) + 1
                else:
                    probe_reports.append(f"NOTE: known finding no longer reproduces: property={pid} {sig}")
            elif reproduces:
                # a probe that fails but is not listed: a real violation
                path = os.path.join(REPLAY_DIR, f"{pid}-probe-{hashlib.sha256(sig.encode()).hexdigest()[:8]}.json")
                os.makedirs(REPLAY_DIR, exist_ok=True)
                json.dump({"property": pid, "probe": sig, "text": text, "choices": [], "clause": "probe", "kind": sig, "sig": sig}, open(path, "w"), indent=1)
                print(f"VIOLATION property={pid} replay={path}")
                write_evidence(mod, pid, tier, verif_seed, t0, None, 1, {}, [], None)
                return 1

    agg = {"runs": 0, "evals": 0, "steps": 0, "stats": {}, "faults": {}, "probes": {},
           "keys": {}, "samples": [], "discarded": {}, "known": {}, "digests": {}}
    want_digests = frozenset(range(0, 8))
    violation = None
    error = None
    first_idx, last_idx = 0, 0
    ctx_mp = mp.get_context("fork")
    next_start = 0
    with cf.ProcessPoolExecutor(max_workers=workers, mp_context=ctx_mp) as ex:
        pending = set()
        stop = False
        try:
            while True:
                while not stop and len(pending) < workers * 2 and next_start < max_runs and time.time() < deadline:
                    cnt = min(batch, max_runs - next_start)
                    pending.add(ex.submit(_work, pid, tier, verif_seed, next_start, cnt, known_sigs, want_digests, deadline))
                    next_start += cnt
                if not pending:
                    break
                done, pending = cf.wait(pending, timeout=5, return_when=cf.FIRST_COMPLETED)
                for fu in done:
                    r = fu.result()
                    if r["error"]:
                        error = r["error"]
                        stop = True
                        continue
                    agg["runs"] += r["runs"]
                    agg["evals"] += r["evals"]
                    agg["steps"] += r["steps"]
                    last_idx = max(last_idx, r["last"])
                    for k in ("stats", "faults", "probes", "discarded", "known"):
                        _merge(agg[k], r[k])
                    if len(agg["keys"]) < KEY_CAP:
                        for kk, w in r["keys"].items():
                            if w > agg["keys"].get(kk, 0):
                                agg["keys"][kk] = w
                    agg["digests"].update(r["digests"])
                    for s in r["samples"]:
                        if len(agg["samples"]) < 3:
                            agg["samples"].append(s)
                    if r["violation"] and (violation is None or r["violation"]["run_index"] < violation["run_index"]):
                        violation = r["violation"]
                        stop = True
                # a run that started just before the deadline may legitimately take the per-run limit
                # (90 s / 180 s); only well beyond that is the pool considered stuck
                if time.time() > deadline + 420:
                    error = "workers overran the deadline by 420 s"
                    break
        except cf.process.BrokenProcessPool as e:
            error = f"worker died: {e}"
        if error or violation:
            for fu in pending:
                fu.cancel()
    if error:
        print("HARNESS-ERROR:\n" + error, file=sys.stderr)
        return 2

    for sig, n in sorted({**agg["known"], **known_hits}.items()):
        if (pid, sig) in known:
            print(f"KNOWN-FINDING: property={pid} {sig} {known[(pid, sig)]} (hit {n}x)")
    for line in probe_reports:
        print(line)

    rc = 0
    replay_path = None
    if violation is not None:
        cls = (violation["v"]["clause"], violation["v"]["kind"])
        sdl = time.time() + min(120.0, max(10.0, budget_s / 4))
        sequence = None
        # 1. does the run show the violation on its own, in a fresh fork?
        try:
            vd0, cls0, _r0 = execute_isolated(pid, tier, violation["choices"])
        except IsolatedFailure:
            vd0, cls0 = None, None
        if vd0 is not None and cls0 == tuple(cls):
            minimised, ok = shrink(pid, tier, violation["choices"], cls, sdl, known_sigs)
            try:
                vd, _c, _r = execute_isolated(pid, tier, minimised)
            except IsolatedFailure:
                vd = None
            min_v = vd if vd is not None else violation["v"]
            if vd is None:
                minimised = violation["choices"]
            if hasattr(mod, "refine"):
                try:
                    min_v["refined"] = isolated(_refine_job, (pid, minimised), timeout=600.0)
                except Exception:  # noqa
                    min_v["refined"] = {"error": traceback.format_exc()[-800:]}
        else:
            # 2. history-dependent: it needs the earlier runs of its batch (state that outlives a run,
            #    e.g. a cache keyed by the identity of a dropped object).  Replay = the contiguous range
            #    of run indices first..last, executed in one fresh process exactly as the check ran them.
            minimised = violation["choices"]
            min_v = dict(violation["v"])
            s0, seq_ok = shrink_sequence(pid, tier, verif_seed, violation.get("batch_start", violation["run_index"]),
                                         violation["run_index"], cls, sdl, known_sigs)
            sequence = [s0, violation["run_index"]]
            min_v["history_dependent"] = {
                "explanation": "executed alone in a fresh process the run does not violate the property; it does after the "
                               "earlier runs of its batch in the same process (state that outlives a run)",
                "range_reproduces_in_fresh_process": seq_ok,
                "note": None if seq_ok else "NOT reproducible from the run indices either: the outcome depends on which freed "
                        "object's address a new object receives (allocator state), which differs between processes",
                "first_run_index": s0, "last_run_index": violation["run_index"]}
        replay_path = write_replay(pid, tier, verif_seed, violation, minimised, min_v, sequence)
        print(json.dumps(min_v, default=str)[:3000])
        print(f"VIOLATION property={pid} replay={replay_path}")
        rc = 1

    det = None
    if rc == 0 and os.environ.get("VERIF_NO_RECHECK") != "1":
        det = determinism_recheck(pid, tier, verif_seed, agg["digests"])
        if det["mismatches"] != 0:
            print(f"HARNESS-ERROR: determinism recheck failed: {det}", file=sys.stderr)
            write_evidence(mod, pid, tier, verif_seed, t0, agg, 0, known_hits, probe_reports, det)
            return 2
    write_evidence(mod, pid, tier, verif_seed, t0, agg, 1 if rc else 0, known_hits, probe_reports, det,
                   replay_path)
    wall = time.time() - t0
    zero = [p for p in getattr(mod, "PROBES", []) if agg["probes"].get(p, 0) == 0]
    if zero:
        print("WARNING: probes never hit: " + ", ".join(zero))
    print(f"{pid} {tier}: runs={agg['runs']} evaluations={agg['evals']} distinct_nontrivial={sum(agg['keys'].values())} "
          f"wall={wall:.1f}s violations={1 if rc else 0}")
    return rc


def write_evidence(mod, pid, tier, verif_seed, t0, agg, violations, known_hits, notes, det, replay_path=None):
    import env
    os.makedirs(EVIDENCE_DIR, exist_ok=True)
    wall = time.time() - t0
    if agg is None:
        agg = {"runs": 0, "evals": 0, "steps": 0, "stats": {}, "faults": {}, "probes": {},
               "keys": {}, "samples": [], "discarded": {}, "known": {}}
    runs = agg["runs"]
    cov = {
        "evaluations": max(agg["evals"], runs),
        "distinct_nontrivial": sum(agg["keys"].values()),
        "distinct_key_cap_reached": len(agg["keys"]) >= KEY_CAP,
        "rule": mod.RULE,
        "samples": agg["samples"] or [{"note": "no sample recorded"}],
        "runs": runs,
        "runs_per_hour": int(runs / wall * 3600) if wall > 0 else 0,
        "seeds": {"VERIF_SEED": verif_seed, "run_seed_derivation": "sha256(f'{VERIF_SEED}:{property}:{run_index}')[:8]",
                  "run_indices": [0, max(0, runs - 1)]},
        "logical_steps": agg["steps"],
        "simulated_time": "n/a - the library has no timers or clocks on any data path; logical steps are reported instead",
        "fault_counts": dict(sorted(agg["faults"].items())),
        "probes": dict(sorted(agg["probes"].items())),
        "stats": dict(sorted(agg["stats"].items())),
        "discarded": agg["discarded"],
        "known_findings_hit": {**agg.get("known", {}), **(known_hits or {})},
        "notes": notes or [],
        "determinism_recheck": det,
        "components": getattr(mod, "COMPONENTS", {}),
        "fastavro_files": {k: v for k, v in env.loaded_files().items() if k.endswith("_py") or k in ("fastavro.utils",)},
        "exhaustive": False,
    }
    if replay_path:
        cov["replay"] = replay_path
    ev = {
        "property_id": pid, "tier": tier, "seed": int(verif_seed), "level": mod.LEVEL,
        "coverage": cov, "assumptions": mod.ASSUMPTIONS, "wall_s": round(wall, 2),
        "violations": int(violations),
    }
    with open(os.path.join(EVIDENCE_DIR, f"{pid}.json"), "w") as f:
        json.dump(ev, f, indent=1, default=str)
