"""One integer decides everything: the recorded choice sequence.

Every random decision of a simulated run (workload, knobs, faults, schedule) is a
``draw(n)`` on one ``Choices`` object.  In *seed mode* draws come from
``random.Random(seed)`` and are recorded; in *replay mode* they come from a recorded
list (exhausted or out-of-range entries yield 0, which every generator maps to its
simplest alternative).  Nothing here reads a clock or any other source of entropy.
"""
import hashlib
import random


def run_seed(verif_seed, prop, run_index):
    h = hashlib.sha256(f"{verif_seed}:{prop}:{run_index}".encode()).hexdigest()
    return int(h[:8], 16)


class Choices:
    __slots__ = ("_rng", "_rec", "_pos", "record", "seed", "overrun", "marks", "count_pos", "subruns")

    def __init__(self, seed=None, recorded=None):
        self.seed = seed
        self.record = []
        self.overrun = 0
        self.marks = []        # positions in `record` where a self-contained unit (one operation) starts
        self.count_pos = None  # position of the draw that decided how many units there are
        self.subruns = []      # positions where the scenarios of a multi-scenario run start
        if recorded is not None:
            self._rng = None
            self._rec = list(recorded)
            self._pos = 0
        else:
            self._rng = random.Random(seed)
            self._rec = None
            self._pos = 0

    # -- core -----------------------------------------------------------------
    def draw(self, n, label=None):
        """Uniform integer in [0, n)."""
        if n <= 1:
            return 0
        if self._rng is not None:
            v = self._rng.randrange(n)
        else:
            if self._pos < len(self._rec):
                v = self._rec[self._pos]
                if not (isinstance(v, int) and 0 <= v < n):
                    v = 0
                    self.overrun += 1
            else:
                v = 0
                self.overrun += 1
            self._pos += 1
        self.record.append(v)
        return v

    def mark_subrun(self):
        self.subruns.append(len(self.record))
        # operation marks / counts are per scenario
        self.marks = []
        self.count_pos = None

    def mark(self):
        """The draws from here to the next mark describe one self-contained operation: the
        shrinker may delete the whole span (and lower the unit count) in one step."""
        self.marks.append(len(self.record))

    def mark_count(self):
        """The draw just made decided the number of units."""
        self.count_pos = len(self.record) - 1

    # -- conveniences (all built on draw) ---------------------------------------
    def chance(self, num, den=100):
        """True with probability num/den; False is the 'simple' outcome (value 0
        maps to False)."""
        return self.draw(den) >= den - num if num > 0 else False

    def pick(self, seq):
        return seq[self.draw(len(seq))]

    def weighted(self, weights):
        """Index drawn proportionally to integer weights; index 0 is simplest."""
        total = sum(weights)
        v = self.draw(total)
        acc = 0
        for i, w in enumerate(weights):
            acc += w
            if v < acc:
                return i
        return len(weights) - 1

    def rng_int(self, lo, hi):
        """Integer in [lo, hi]; lo is the simple outcome."""
        span = hi - lo + 1
        if span <= (1 << 30):
            return lo + self.draw(span)
        # big ranges in 30-bit limbs
        bits = span.bit_length()
        while True:
            v = 0
            got = 0
            while got < bits:
                take = min(30, bits - got)
                v = (v << take) | self.draw(1 << take)
                got += take
            if v < span:
                return lo + v
            # rejection: draw again -- in replay mode too, so that a recorded list replays to
            # exactly the same values; only an exhausted (shrunk) list falls back to a modulo
            if self._rng is None and self._pos >= len(self._rec):
                return lo + (v % span)

    def bytes(self, n):
        return bytes(self.draw(256) for _ in range(n))

    def shuffle(self, seq):
        seq = list(seq)
        for i in range(len(seq) - 1, 0, -1):
            j = self.draw(i + 1)
            seq[i], seq[j] = seq[j], seq[i]
        return seq

    def fork(self, label):
        """A child Choices whose seed is one draw of this one: lets a sub-activity
        (e.g. the scheduler) consume an unbounded number of choices without
        shifting the positions of the parent's later draws."""
        s = self.draw(1 << 30)
        return s
