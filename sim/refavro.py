"""refavro -- an independent, deliberately small Avro implementation written from the
Avro 1.11 specification.  Imports nothing from fastavro.

Roles: (1) the *peer* at the other end of the simulated storage (foreign writer with
randomised but legal layout freedom; strict-but-tolerant container parser);
(2) the *reference model* that says what a correct run looks like (block boundaries,
expected records, conformance and normal-form equality).
"""
import array as _array
import bz2
import collections.abc as _abc
import datetime
import decimal
import json
import lzma
import math
import struct
import uuid
import zlib

PRIMS = ("null", "boolean", "int", "long", "float", "double", "bytes", "string")
MAGIC = b"Obj\x01"
INT_MIN, INT_MAX = -(1 << 31), (1 << 31) - 1
LONG_MIN, LONG_MAX = -(1 << 63), (1 << 63) - 1


class RefError(Exception):
    pass


class N:
    """Resolved schema node."""
    __slots__ = ("k", "name", "fields", "symbols", "size", "items", "values",
                 "branches", "logical", "names", "enum_default", "lparams")

    def __init__(self, k, **kw):
        self.k = k
        self.name = None
        self.fields = None
        self.symbols = None
        self.size = None
        self.items = None
        self.values = None
        self.branches = None
        self.logical = None
        self.lparams = None
        self.names = None
        self.enum_default = None
        for a, v in kw.items():
            setattr(self, a, v)

    def __repr__(self):
        return f"N({self.k},{self.name})"


class F:
    __slots__ = ("name", "type", "has_default", "default")

    def __init__(self, name, type_, has_default, default):
        self.name = name
        self.type = type_
        self.has_default = has_default
        self.default = default


# ------------------------------------------------------------------------ name resolution
def _fullname(name, namespace, enclosing_ns):
    if "." in name:
        ns = name.rsplit(".", 1)[0]
        return ns, name
    ns = namespace if namespace is not None else enclosing_ns
    if ns:
        return ns, ns + "." + name
    return "", name


def resolve(schema, names=None, ns=""):
    """Resolve a JSON-like schema into a tree of N; ``names`` maps full name -> N."""
    if names is None:
        names = {}
    return _res(schema, names, ns)


def _res(s, names, ns):
    if isinstance(s, str):
        if s in PRIMS:
            return N(s)
        full = s if "." in s else (ns + "." + s if ns else s)
        if full not in names:
            raise RefError(f"unknown type {full}")
        return N("ref", name=full, names=names)
    if isinstance(s, list):
        return N("union", branches=[_res(b, names, ns) for b in s])
    if not isinstance(s, dict):
        raise RefError(f"bad schema {s!r}")
    t = s["type"]
    if isinstance(t, (dict, list)):
        # {"type": {...}} wrapper
        return _res(t, names, ns)
    lt = s.get("logicalType")
    if t in PRIMS:
        n = N(t)
        _logical(n, s, lt)
        return n
    if t == "array":
        return N("array", items=_res(s["items"], names, ns))
    if t == "map":
        return N("map", values=_res(s["values"], names, ns))
    if t in ("record", "error"):
        myns, full = _fullname(s["name"], s.get("namespace"), ns)
        if full in names:
            raise RefError(f"redefined {full}")
        n = N("record", name=full, fields=[])
        names[full] = n
        for f in s.get("fields", []):
            ft = _res(f["type"], names, myns)
            n.fields.append(F(f["name"], ft, "default" in f, f.get("default")))
        return n
    if t == "enum":
        _, full = _fullname(s["name"], s.get("namespace"), ns)
        if full in names:
            raise RefError(f"redefined {full}")
        n = N("enum", name=full, symbols=list(s["symbols"]), enum_default=s.get("default"))
        names[full] = n
        return n
    if t == "fixed":
        _, full = _fullname(s["name"], s.get("namespace"), ns)
        if full in names:
            raise RefError(f"redefined {full}")
        n = N("fixed", name=full, size=s["size"])
        names[full] = n
        _logical(n, s, lt)
        return n
    # a name used as {"type": "Name"}
    return _res(t, names, ns)


def _logical(n, s, lt):
    if not lt:
        return
    ok = {
        "decimal": ("bytes", "fixed"), "uuid": ("string",), "date": ("int",),
        "time-millis": ("int",), "time-micros": ("long",),
        "timestamp-millis": ("long",), "timestamp-micros": ("long",),
        "local-timestamp-millis": ("long",), "local-timestamp-micros": ("long",),
    }
    if lt in ok and n.k in ok[lt]:
        n.logical = lt
        if lt == "decimal":
            n.lparams = (s.get("precision"), s.get("scale", 0))


def deref(n):
    while n.k == "ref":
        n = n.names[n.name]
    return n


def branch_name(b):
    """Name under which a union branch is addressed by a (name, value) hint."""
    b = deref(b)
    return b.name if b.k in ("record", "enum", "fixed") else b.k


# --------------------------------------------------------------------------- primitives
def zz(n):
    """zig-zag base-128 varint of a (64-bit range) integer."""
    u = (n << 1) ^ (n >> 63)
    u &= (1 << 64) - 1
    out = bytearray()
    while u & ~0x7F:
        out.append((u & 0x7F) | 0x80)
        u >>= 7
    out.append(u)
    return bytes(out)


def zz_any(n):
    """zig-zag varint of an arbitrary Python integer (used to forge out-of-range
    indices; for values inside int64 identical to zz)."""
    u = (n << 1) if n >= 0 else ((-n) << 1) - 1
    out = bytearray()
    while u & ~0x7F:
        out.append((u & 0x7F) | 0x80)
        u >>= 7
    out.append(u)
    return bytes(out)


def unzz(data, pos):
    shift = 0
    u = 0
    while True:
        if pos >= len(data):
            raise RefError("eof in varint")
        b = data[pos]
        pos += 1
        u |= (b & 0x7F) << shift
        shift += 7
        if not b & 0x80:
            break
        if shift > 70:
            raise RefError("varint too long")
    return (u >> 1) ^ -(u & 1), pos


def f32_round(x):
    return struct.unpack("<f", struct.pack("<f", x))[0]


def f32_representable(x):
    if isinstance(x, bool):
        return False
    if isinstance(x, int):
        try:
            x = float(x)
        except OverflowError:
            return False
    if math.isnan(x) or math.isinf(x):
        return True
    try:
        return f32_round(x) == x
    except OverflowError:
        return False


# -------------------------------------------------------------------------- conformance
def conforms(n, d, logical=True, strict_keys=False):
    """Does Python datum d conform to node n under the documented Python mapping?
    strict_keys=False mirrors what a validating writer accepts (extra record keys are ignored);
    strict_keys=True additionally demands that a record datum has no keys the record lacks -- the
    notion used when THIS module chooses a union branch to encode (it must not drop data)."""
    n = deref(n)
    k = n.k
    if logical and n.logical:
        if _logical_conforms(n, d):
            return True
    if k == "null":
        return d is None
    if k == "boolean":
        return isinstance(d, bool)
    if k == "int":
        return isinstance(d, int) and not isinstance(d, bool) and INT_MIN <= d <= INT_MAX
    if k == "long":
        return isinstance(d, int) and not isinstance(d, bool) and LONG_MIN <= d <= LONG_MAX
    if k == "float":
        # documented mapping: int or float; the value is rounded to binary32 on write
        # (a finite value whose rounding overflows binary32 cannot be written)
        if isinstance(d, bool) or not isinstance(d, (int, float)):
            return False
        try:
            struct.pack("<f", d)
            return True
        except (OverflowError, struct.error):
            return False
    if k == "double":
        if isinstance(d, bool) or not isinstance(d, (int, float)):
            return False
        try:
            struct.pack("<d", d)
            return True
        except (OverflowError, struct.error):
            return False
    if k == "bytes":
        return isinstance(d, (bytes, bytearray))
    if k == "string":
        return isinstance(d, str)
    if k == "fixed":
        return isinstance(d, bytes) and len(d) == n.size
    if k == "enum":
        return isinstance(d, str) and d in n.symbols
    if k == "array":
        # documented mapping: any non-string sequence (bytes is a sequence of ints)
        return (isinstance(d, (_abc.Sequence, _array.array, bytearray)) and not isinstance(d, str)
                and all(conforms(n.items, x, logical, strict_keys) for x in d))
    if k == "map":
        return isinstance(d, _abc.Mapping) and all(isinstance(key, str) for key in d) and \
            all(conforms(n.values, v, logical, strict_keys) for v in d.values())
    if k == "union":
        if isinstance(d, tuple) and len(d) == 2 and isinstance(d[0], str):
            return any(branch_name(b) == d[0] and conforms(b, d[1], logical, strict_keys) for b in n.branches)
        return any(conforms(b, d, logical, strict_keys) for b in n.branches)
    if k == "record":
        if not isinstance(d, _abc.Mapping):
            return False
        if "-type" in d and d["-type"] != n.name:
            return False
        if strict_keys and set(d) - {f.name for f in n.fields} - {"-type"}:
            return False
        for f in n.fields:
            if f.name in d:
                if not conforms(f.type, d[f.name], logical, strict_keys):
                    return False
            elif not f.has_default:
                # an absent field is acceptable only when it accepts null
                if not conforms(f.type, None, logical, strict_keys):
                    return False
        return True
    raise RefError(f"conforms: {k}")


def _logical_conforms(n, d):
    lt = n.logical
    if lt == "decimal":
        return isinstance(d, decimal.Decimal)
    if lt == "uuid":
        return isinstance(d, uuid.UUID)
    if lt == "date":
        return isinstance(d, datetime.date) and not isinstance(d, datetime.datetime)
    if lt in ("time-millis", "time-micros"):
        return isinstance(d, datetime.time)
    return isinstance(d, datetime.datetime)


# ------------------------------------------------------------------------------ encoder
class Layout:
    """Foreign-writer freedom: how arrays and maps are cut into blocks.  ``ch`` is a
    Choices-like object (draw / chance) or None for the canonical single block."""

    def __init__(self, ch=None, neg_pct=40, split_pct=60):
        self.ch = ch
        self.neg_pct = neg_pct
        self.split_pct = split_pct
        self.stats = {"blocks": 0, "neg_blocks": 0, "multi": 0, "max_blocks": 0}

    def partition(self, n):
        """Sizes of the blocks for n > 0 items."""
        ch = self.ch
        if ch is None or not ch.chance(self.split_pct):
            return [n]
        mode = ch.draw(3)
        if mode == 0:  # all single-item blocks
            return [1] * n
        sizes = []
        left = n
        while left > 0:
            if mode == 1:
                s = 1 + ch.draw(min(left, 3))
            else:
                s = 1 + ch.draw(left)
            sizes.append(s)
            left -= s
        return sizes

    def negative(self):
        return self.ch is not None and self.ch.chance(self.neg_pct)


def encode(n, d, layout=None):
    """Encode datum d under node n.  Returns (bytes, sites) where sites lists every
    union / enum index varint: dict(off, len, kind, n, depth)."""
    if layout is None:
        layout = Layout(None)
    out = bytearray()
    sites = []
    _enc(n, d, out, sites, layout, 0)
    return bytes(out), sites


def _enc(n, d, out, sites, lay, depth):
    n = deref(n)
    k = n.k
    if k == "null":
        if d is not None:
            raise RefError("not null")
        return
    if k == "boolean":
        out.append(1 if d else 0)
        return
    if k in ("int", "long"):
        out += zz(d)
        return
    if k == "float":
        out += struct.pack("<f", d)
        return
    if k == "double":
        out += struct.pack("<d", d)
        return
    if k == "bytes":
        out += zz(len(d))
        out += bytes(d)
        return
    if k == "string":
        b = d.encode("utf-8")
        out += zz(len(b))
        out += b
        return
    if k == "fixed":
        if len(d) != n.size:
            raise RefError("fixed size")
        out += bytes(d)
        return
    if k == "enum":
        i = n.symbols.index(d)
        v = zz(i)
        sites.append({"off": len(out), "len": len(v), "kind": "enum", "n": len(n.symbols), "depth": depth})
        out += v
        return
    if k == "union":
        order = list(enumerate(n.branches))
        if isinstance(d, float):
            # a foreign writer that does not lose precision: prefer 'double' for a Python float
            order.sort(key=lambda ib: 0 if deref(ib[1]).k == "double" else 1)
        for i, b in order:
            if conforms(b, d, logical=False, strict_keys=True):
                v = zz(i)
                sites.append({"off": len(out), "len": len(v), "kind": "union", "n": len(n.branches), "depth": depth})
                out += v
                _enc(b, d, out, sites, lay, depth + 1)
                return
        raise RefError(f"no union branch for {d!r}")
    if k == "record":
        for f in n.fields:
            if f.name in d:
                _enc(f.type, d[f.name], out, sites, lay, depth + 1)
            elif f.has_default:
                _enc(f.type, default_value(f.type, f.default), out, sites, lay, depth + 1)
            elif conforms(f.type, None, logical=False):
                _enc(f.type, None, out, sites, lay, depth + 1)
            else:
                raise RefError(f"missing field {f.name}")
        return
    if k in ("array", "map"):
        items = list(d) if k == "array" else list(d.items())
        if items:
            sizes = lay.partition(len(items))
            lay.stats["blocks"] += len(sizes)
            lay.stats["max_blocks"] = max(lay.stats["max_blocks"], len(sizes))
            if len(sizes) > 1:
                lay.stats["multi"] += 1
            i = 0
            for s in sizes:
                chunk = items[i:i + s]
                i += s
                tmp = bytearray()
                tsites = []
                for it in chunk:
                    if k == "array":
                        _enc(n.items, it, tmp, tsites, lay, depth + 1)
                    else:
                        kb = it[0].encode("utf-8")
                        tmp += zz(len(kb))
                        tmp += kb
                        _enc(n.values, it[1], tmp, tsites, lay, depth + 1)
                if lay.negative():
                    lay.stats["neg_blocks"] += 1
                    out += zz(-s)
                    out += zz(len(tmp))
                else:
                    out += zz(s)
                base = len(out)
                out += tmp
                for st in tsites:
                    st["off"] += base
                    sites.append(st)
        out += zz(0)
        return
    raise RefError(f"encode: {k}")


def default_value(n, j):
    """Interpret a JSON default j for node n (spec: unions take the first branch;
    bytes/fixed defaults are strings of code points 0-255)."""
    n = deref(n)
    k = n.k
    if k == "union":
        return default_value(n.branches[0], j)
    if k in ("bytes", "fixed"):
        return j.encode("latin-1") if isinstance(j, str) else j
    if k in ("float", "double"):
        return float(j)
    if k == "record":
        return {f.name: default_value(f.type, j[f.name] if f.name in j else f.default) for f in n.fields}
    if k == "array":
        return [default_value(n.items, x) for x in j]
    if k == "map":
        return {kk: default_value(n.values, v) for kk, v in j.items()}
    return j


# ------------------------------------------------------------------------------ decoder
def decode(n, data, pos=0):
    """Strict decoder: returns (value, new_pos); raises RefError on anything illegal."""
    n = deref(n)
    k = n.k
    if k == "null":
        return None, pos
    if k == "boolean":
        if pos >= len(data):
            raise RefError("eof")
        b = data[pos]
        if b not in (0, 1):
            raise RefError("bad boolean")
        return b == 1, pos + 1
    if k in ("int", "long"):
        return unzz(data, pos)
    if k == "float":
        if pos + 4 > len(data):
            raise RefError("eof")
        return struct.unpack_from("<f", data, pos)[0], pos + 4
    if k == "double":
        if pos + 8 > len(data):
            raise RefError("eof")
        return struct.unpack_from("<d", data, pos)[0], pos + 8
    if k in ("bytes", "string"):
        ln, pos = unzz(data, pos)
        if ln < 0 or pos + ln > len(data):
            raise RefError("bad length")
        b = bytes(data[pos:pos + ln])
        pos += ln
        if k == "string":
            try:
                return b.decode("utf-8"), pos
            except UnicodeDecodeError as e:
                raise RefError(str(e))
        return b, pos
    if k == "fixed":
        if pos + n.size > len(data):
            raise RefError("eof")
        return bytes(data[pos:pos + n.size]), pos + n.size
    if k == "enum":
        i, pos = unzz(data, pos)
        if not 0 <= i < len(n.symbols):
            raise RefError("enum index out of range")
        return n.symbols[i], pos
    if k == "union":
        i, pos = unzz(data, pos)
        if not 0 <= i < len(n.branches):
            raise RefError("union index out of range")
        return decode(n.branches[i], data, pos)
    if k == "record":
        out = {}
        for f in n.fields:
            out[f.name], pos = decode(f.type, data, pos)
        return out, pos
    if k in ("array", "map"):
        res = [] if k == "array" else {}
        while True:
            c, pos = unzz(data, pos)
            if c == 0:
                break
            if c < 0:
                c = -c
                bs, pos = unzz(data, pos)
                if bs < 0:
                    raise RefError("negative block size")
                end_expect = pos + bs
            else:
                end_expect = None
            for _ in range(c):
                if k == "array":
                    v, pos = decode(n.items, data, pos)
                    res.append(v)
                else:
                    ln, pos = unzz(data, pos)
                    if ln < 0 or pos + ln > len(data):
                        raise RefError("bad key length")
                    key = bytes(data[pos:pos + ln]).decode("utf-8")
                    pos += ln
                    v, pos = decode(n.values, data, pos)
                    res[key] = v
            if end_expect is not None and pos != end_expect:
                raise RefError("block byte size mismatch")
        return res, pos
    raise RefError(f"decode: {k}")


# ---------------------------------------------------------------------------- equality
def value_eq(a, b):
    """Deep, type-strict equality with NaN == NaN and -0.0 != 0.0."""
    if type(a) is not type(b):
        if isinstance(a, (bytes, bytearray)) and isinstance(b, (bytes, bytearray)):
            return bytes(a) == bytes(b)
        return False
    if isinstance(a, float):
        if math.isnan(a) or math.isnan(b):
            return math.isnan(a) and math.isnan(b)
        return struct.pack("<d", a) == struct.pack("<d", b)
    if isinstance(a, dict):
        if len(a) != len(b):
            return False
        for k, v in a.items():
            if k not in b or not value_eq(v, b[k]):
                return False
        return True
    if isinstance(a, (list, tuple)):
        return len(a) == len(b) and all(value_eq(x, y) for x, y in zip(a, b))
    return a == b


def _float_eq(exp, got):
    if not isinstance(got, float):
        return False
    if math.isnan(exp):
        return math.isnan(got)
    return struct.pack("<d", float(exp)) == struct.pack("<d", got)


def record_branch_ambiguity(n, d):
    """At union n: does mapping datum d fit one branch exactly (every key accounted for) while the branch
    the DOCUMENTED selection rule arrives at accepts it only because validation ignores keys a record does
    not have?  The documented rule (fastavro: among the record branches the datum validates against, the one
    with most top-level field names in common, the first on a tie) cannot tell the two apart when the extra
    keys sit further down -- known finding, see KNOWN_FINDINGS.txt.  A writer that picks a sloppy branch
    although the documented rule points at the exact one is NOT covered by this."""
    n = deref(n)
    if n.k != "union" or not isinstance(d, _abc.Mapping) or "-type" in d:
        return False
    best, most = None, -1
    for b in n.branches:
        if not conforms(b, d, logical=False):
            continue
        bb = deref(b)
        if bb.k == "record":
            matched = len({f.name for f in bb.fields} & set(d))
            if matched > most:
                best, most = b, matched
        else:
            best = b
            break
    if best is None or deref(best).k != "record" or conforms(best, d, logical=False, strict_keys=True):
        return False
    return any(conforms(b, d, logical=False, strict_keys=True) for b in n.branches)


def has_record_branch_ambiguity(n, d, depth=0):
    """record_branch_ambiguity anywhere inside datum d (walked along every conforming branch)."""
    n = deref(n)
    if depth > 400:
        return False
    if n.k == "union":
        if isinstance(d, tuple) and len(d) == 2 and isinstance(d[0], str):
            return any(branch_name(b) == d[0] and has_record_branch_ambiguity(b, d[1], depth + 1) for b in n.branches)
        if record_branch_ambiguity(n, d):
            return True
        return any(conforms(b, d, logical=False) and has_record_branch_ambiguity(b, d, depth + 1) for b in n.branches)
    if n.k == "record" and isinstance(d, _abc.Mapping):
        return any(f.name in d and has_record_branch_ambiguity(f.type, d[f.name], depth + 1) for f in n.fields)
    if n.k == "array" and isinstance(d, (list, tuple)):
        return any(has_record_branch_ambiguity(n.items, x, depth + 1) for x in d)
    if n.k == "map" and isinstance(d, _abc.Mapping):
        return any(has_record_branch_ambiguity(n.values, x, depth + 1) for x in d.values())
    return False


def normal_eq(n, d, r, loose=False):
    """Is r an acceptable read-back of datum d written under node n?  Accepts exactly
    the documented normalisations: defaults for omitted fields, sequences -> lists,
    numbers under float/double -> float, binary32 rounding, NaN ~ NaN; at a union any
    branch the datum conforms to.  loose=True (set below a union at which a mapping datum
    conforms both to a record branch and to a map branch -- precedence between the two is
    nowhere documented, known finding; likewise when it fits one branch exactly and another record
    branch only by ignoring extra keys) additionally tolerates record keys being dropped."""
    n = deref(n)
    k = n.k
    if k == "union":
        if isinstance(d, tuple) and len(d) == 2 and isinstance(d[0], str):
            return any(branch_name(b) == d[0] and normal_eq(b, d[1], r, loose) for b in n.branches)
        if not loose and isinstance(d, _abc.Mapping) and "-type" not in d:
            conf = [deref(b).k for b in n.branches if conforms(b, d, logical=False)]
            if "map" in conf and "record" in conf:
                loose = True
            elif record_branch_ambiguity(n, d):
                loose = True   # second documented-nowhere precedence: exact record vs record that ignores extra keys
        if isinstance(d, float) and any(deref(b).k == "double" for b in n.branches):
            # documented writer behaviour: a Python float is never narrowed to 'float' when the
            # union offers 'double' -- it must come back bit-exact
            return _float_eq(d, r)
        return any(conforms(b, d, logical=False) and normal_eq(b, d, r, loose) for b in n.branches)
    if k == "null":
        return d is None and r is None
    if k == "boolean":
        return isinstance(r, bool) and r == bool(d)
    if k in ("int", "long"):
        return isinstance(r, int) and not isinstance(r, bool) and r == d
    if k == "float":
        return _float_eq(f32_round(float(d)) if not (isinstance(d, float) and (math.isnan(d) or math.isinf(d))) else d, r)
    if k == "double":
        return _float_eq(float(d), r)
    if k == "bytes" or k == "fixed":
        return isinstance(r, bytes) and r == bytes(d)
    if k == "string":
        return isinstance(r, str) and r == d
    if k == "enum":
        return isinstance(r, str) and r == d
    if k == "array":
        return isinstance(r, list) and len(r) == len(d) and all(normal_eq(n.items, x, y, loose) for x, y in zip(d, r))
    if k == "map":
        if not isinstance(r, dict) or set(r) != set(d):
            return False
        return all(normal_eq(n.values, v, r[kk], loose) for kk, v in d.items())
    if k == "record":
        if not isinstance(r, dict) or set(r) != {f.name for f in n.fields}:
            return False
        if not loose and set(d) - {f.name for f in n.fields} - {"-type"}:
            # dropping keys of the datum is not a documented normalisation: a datum with fields this
            # record does not have was not written "as this record" (matters at unions of records)
            return False
        for f in n.fields:
            if f.name in d:
                if not normal_eq(f.type, d[f.name], r[f.name], loose):
                    return False
            elif f.has_default:
                if not normal_eq(f.type, default_value(f.type, f.default), r[f.name], loose):
                    return False
            else:
                if r[f.name] is not None:
                    return False
        return True
    raise RefError(f"normal_eq: {k}")


# ----------------------------------------------------------------------------- container
def _compress(codec, payload, ch=None):
    if codec == "null":
        return payload
    if codec == "deflate":
        lvl = 6 if ch is None else (1, 6, 9, 0)[ch.draw(4)]
        c = zlib.compressobj(lvl, zlib.DEFLATED, -15)
        return c.compress(payload) + c.flush()
    if codec == "bzip2":
        return bz2.compress(payload)
    if codec == "xz":
        return lzma.compress(payload)
    raise RefError(f"codec {codec}")


def _decompress(codec, data, notes):
    if codec == "null":
        return data
    if codec == "deflate":
        d = zlib.decompressobj(-15)
        try:
            out = d.decompress(data)
            out += d.flush()
        except zlib.error as e:
            raise RefError(f"deflate: {e}")
        if not d.eof:
            raise RefError("deflate stream incomplete")
        if d.unused_data:
            notes["deflate_trailing_bytes"] = notes.get("deflate_trailing_bytes", 0) + 1
        return out
    if codec == "bzip2":
        try:
            return bz2.decompress(data)
        except Exception as e:
            raise RefError(f"bzip2: {e}")
    if codec == "xz":
        try:
            return lzma.decompress(data)
        except Exception as e:
            raise RefError(f"xz: {e}")
    raise RefError(f"unknown codec {codec!r}")


def encode_header_map(meta, ch=None):
    """Encode map<bytes> possibly split into several chunks, each in positive or
    negative-count form (legal per spec)."""
    items = list(meta.items())
    out = bytearray()
    chunks = 1
    if items:
        if ch is not None and len(items) > 1 and ch.chance(50):
            sizes = []
            left = len(items)
            while left:
                s = 1 + ch.draw(left)
                sizes.append(s)
                left -= s
        else:
            sizes = [len(items)]
        chunks = len(sizes)
        i = 0
        for s in sizes:
            tmp = bytearray()
            for k, v in items[i:i + s]:
                kb = k.encode("utf-8")
                tmp += zz(len(kb)) + kb + zz(len(v)) + v
            i += s
            if ch is not None and ch.chance(40):
                out += zz(-s) + zz(len(tmp))
            else:
                out += zz(s)
            out += tmp
    out += zz(0)
    return bytes(out), chunks


def write_container(node, schema_json, blocks, codec="null", sync=b"\x00" * 16, meta=None,
                    ch=None, codec_key=True, layout=None):
    """Foreign container writer.  blocks: list of lists of data (one inner list per
    block, possibly empty).  Returns (bytes, truth) where truth gives header_len, block
    (start, end, count) and cumulative counts."""
    m = {}
    m["avro.schema"] = schema_json if isinstance(schema_json, bytes) else json.dumps(schema_json).encode()
    if codec_key or codec != "null":
        m["avro.codec"] = codec.encode()
    for k, v in (meta or {}).items():
        if k in ("avro.schema", "avro.codec"):
            continue   # reserved: this writer describes the file itself
        m[k] = v if isinstance(v, bytes) else v.encode("utf-8")
    if ch is not None:
        keys = ch.shuffle(list(m))
        m = {k: m[k] for k in keys}
    hm, chunks = encode_header_map(m, ch)
    out = bytearray(MAGIC + hm + sync)
    header_len = len(out)
    bl = []
    total = 0
    for recs in blocks:
        payload = bytearray()
        for r in recs:
            b, _ = encode(node, r, layout)
            payload += b
        comp = _compress(codec, bytes(payload), ch)
        start = len(out)
        out += zz(len(recs)) + zz(len(comp)) + comp + sync
        total += len(recs)
        bl.append((start, len(out), len(recs)))
    truth = {"header_len": header_len, "blocks": bl, "total": total, "header_chunks": chunks}
    return bytes(out), truth


class Parsed:
    def __init__(self):
        self.header_len = 0
        self.meta = {}
        self.codec = "null"
        self.sync = b""
        self.blocks = []   # (start, end, count, payload_len)
        self.records = None
        self.notes = {}
        self.schema = None


def parse_container(data, decode_records=True):
    """Strict-but-tolerant container parser (tolerances are recorded in .notes)."""
    p = Parsed()
    if data[:4] != MAGIC:
        raise RefError("bad magic")
    pos = 4
    meta = {}
    while True:
        c, pos = unzz(data, pos)
        if c == 0:
            break
        if c < 0:
            c = -c
            _, pos = unzz(data, pos)
        for _ in range(c):
            ln, pos = unzz(data, pos)
            if ln < 0 or pos + ln > len(data):
                raise RefError("bad meta key")
            key = bytes(data[pos:pos + ln]).decode("utf-8")
            pos += ln
            ln, pos = unzz(data, pos)
            if ln < 0 or pos + ln > len(data):
                raise RefError("bad meta value")
            meta[key] = bytes(data[pos:pos + ln])
            pos += ln
    if pos + 16 > len(data):
        raise RefError("eof in header sync")
    p.sync = bytes(data[pos:pos + 16])
    pos += 16
    p.header_len = pos
    p.meta = meta
    if "avro.schema" not in meta:
        raise RefError("no avro.schema")
    p.schema = json.loads(meta["avro.schema"].decode("utf-8"))
    p.codec = meta.get("avro.codec", b"null").decode()
    node = resolve(p.schema) if decode_records else None
    recs = []
    while pos < len(data):
        start = pos
        cnt, pos = unzz(data, pos)
        if cnt < 0:
            raise RefError("negative block count")
        ln, pos = unzz(data, pos)
        if ln < 0 or pos + ln > len(data):
            raise RefError("block payload exceeds file")
        comp = bytes(data[pos:pos + ln])
        pos += ln
        if bytes(data[pos:pos + 16]) != p.sync:
            raise RefError("sync marker mismatch")
        pos += 16
        if decode_records:
            payload = _decompress(p.codec, comp, p.notes)
            q = 0
            for _ in range(cnt):
                v, q = decode(node, payload, q)
                recs.append(v)
            if q != len(payload):
                raise RefError("block payload not fully consumed")
        p.blocks.append((start, pos, cnt, ln))
    p.records = recs if decode_records else None
    return p
