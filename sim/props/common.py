"""Shared scenario builders for the container-file properties (C04, C05, C06, C07)."""
import io
import json

import env
import gen
import refavro
from runner import Discard, Violation, jsonable  # noqa

CODECS = ["null", "deflate", "bzip2", "xz"]


def fa():
    return env.load()


def revised_schema(ch, schema):
    """A later revision of `schema`: same type names, other definitions (enum gains a symbol in
    front, fixed changes size, records gain a leading field or list their fields in another
    order).  Handed to an append re-open, where the header's schema -- not this one -- decides."""
    changed = [0]

    def walk(t):
        if isinstance(t, list):
            return [walk(b) for b in t]
        if not isinstance(t, dict):
            return t
        t = dict(t)
        k = t.get("type")
        if k == "enum":
            if ch.chance(70):
                t["symbols"] = ["ZZ_REVISED"] + list(t["symbols"])
                changed[0] += 1
        elif k == "fixed":
            if ch.chance(70) and "logicalType" not in t:
                t["size"] = t["size"] + 1
                t.pop("default", None)
                changed[0] += 1
        elif k in ("record", "error"):
            fields = []
            for f in t.get("fields", []):
                f = dict(f)
                f["type"] = walk(f["type"])
                fields.append(f)
            how = ch.draw(4)
            if how == 1:
                fields.insert(0, {"name": "zz_revised", "type": "long", "default": 7})
                changed[0] += 1
            elif how == 2 and len(fields) > 1:
                fields.reverse()
                changed[0] += 1
            elif how == 3 and fields:
                fields.pop()
                changed[0] += 1
            t["fields"] = fields
        elif k == "array":
            t["items"] = walk(t["items"])
        elif k == "map":
            t["values"] = walk(t["values"])
        elif isinstance(k, (dict, list)):
            t["type"] = walk(k)
        return t

    out = walk(json.loads(json.dumps(schema)))
    return out if changed[0] else None


def draw_codec(ch, heavy_pct=25):
    """null / deflate mostly; bzip2 and xz (slow, ~ms per block) less often."""
    if ch.chance(heavy_pct):
        return ch.pick(["bzip2", "xz"])
    return ch.pick(["null", "deflate"])


class Scenario:
    """A container-file workload: schema, records, writer knobs."""

    def __init__(self):
        self.schema = None
        self.node = None
        self.records = []
        self.codec = "null"
        self.sync_interval = 16000
        self.sync_marker = b""
        self.metadata = None
        self.level = None
        self.parsed = False
        self.validator = False
        self.gstats = {}
        self.dprobes = {}
        self.profile = "small"
        self.sync_interval_hint = None
        self.flushes = None   # None: one fastavro.writer() call; else Writer class, flush after these record indices (-1: before the first)

    def describe(self):
        return {"schema": self.schema, "profile": self.profile, "records": jsonable(self.records[:6]),
                "n_records": len(self.records), "codec": self.codec,
                "sync_interval": self.sync_interval, "sync_marker": jsonable(self.sync_marker),
                "metadata": self.metadata, "level": self.level, "parsed": self.parsed,
                "flushes": sorted(self.flushes) if self.flushes is not None else None}


def container_scenario(ch, max_records=12, top="any", serial=True, logical=False, hints=False,
                       big=False, size_profiles=False, wide=True):
    sc = Scenario()
    if size_profiles and ch.chance(4):
        # swarm: size profile -- thousands of tiny records (multi-byte block counts, many blocks)
        # or one record beyond 64 KiB (block length varint of 3 bytes, payload larger than any buffer)
        sc.profile = ch.pick(["many_records", "huge_record"])
        if sc.profile == "many_records":
            sc.schema = {"type": "record", "name": "Tiny", "fields": [{"name": "serial", "type": "long"}, {"name": "t", "type": "string"}]}
            n = ch.pick([300, 1000, 2500])
            sc.records = [{"serial": i, "t": "r%d" % (i % 7)} for i in range(n)]
            sc.sync_interval_hint = ch.pick([16000, 16000, 40, 700, 100000])
        else:
            sc.schema = {"type": "record", "name": "Huge", "fields": [{"name": "serial", "type": "long"}, {"name": "blob", "type": ch.pick(["string", "bytes"])}]}
            big_n = ch.pick([65536, 70000, 200000])
            blob = ("x" * big_n) if sc.schema["fields"][1]["type"] == "string" else (b"\x01" * big_n)
            sc.records = [{"serial": 0, "blob": blob[:10]}, {"serial": 1, "blob": blob}, {"serial": 2, "blob": blob[:3]}]
            sc.sync_interval_hint = ch.pick([16000, 1, 70000, 1000000])
        sc.node = refavro.resolve(sc.schema)
        sc.codec = draw_codec(ch, heavy_pct=15)
        sc.sync_marker = ch.bytes(16) if ch.chance(60) else b""
        sc.parsed = ch.chance(40)
        return sc
    zero = ch.chance(4)
    if zero:
        sc.schema = gen.zero_byte_schema()
        sc.gstats = {}
    else:
        sc.schema, sc.gstats = gen.schema(ch, top=top, serial_field=serial, max_depth=2 + ch.draw(2),
                                          max_fields=4, wide=wide)
    sc.node = refavro.resolve(sc.schema)
    dg = gen.DataGen(ch, hints=hints, big_collections=big, max_len=3)
    nrec = ch.weighted([1, 2, 6])
    nrec = 0 if nrec == 0 else (1 if nrec == 1 else 2 + ch.draw(max_records - 1))
    top_node = refavro.deref(sc.node)
    for i in range(nrec):
        d = dg.datum(sc.node)
        if top_node.k == "record" and top_node.fields and top_node.fields[0].name == "serial":
            d = dict(d)
            d["serial"] = i
        sc.records.append(d)
    sc.dprobes = dg.probes
    sc.codec = draw_codec(ch)
    sc.sync_marker = ch.bytes(16) if ch.chance(60) else b""
    if ch.chance(30):
        sc.metadata = {ch.pick(["k", "user.key", "é"]): ch.pick(["", "v", "välue"])}
        if ch.chance(30):
            sc.metadata["second"] = "2"
        if ch.chance(12):
            # metadata taken over from ANOTHER file (e.g. metadata=reader.metadata): it carries that
            # file's reserved avro.* entries; the writer must still describe THIS file
            sc.metadata["avro.schema"] = json.dumps({"type": "record", "name": "Stale", "fields": [{"name": "zz", "type": "string"}]})
            if ch.chance(50):
                sc.metadata["avro.codec"] = ch.pick(CODECS)
        if ch.chance(8):
            # header larger than 64 KiB / many keys
            if ch.draw(2):
                sc.metadata["big"] = "m" * ch.pick([65536, 70000])
            else:
                for i in range(60):
                    sc.metadata["key%03d" % i] = "välue" * (i % 5)
    if ch.chance(40):
        # codec_compression_level: only values the codec's own library accepts (today bzip2 and xz
        # ignore the argument; a version that honours it must not be flagged for rejecting a level
        # the codec does not have)
        sc.level = ch.pick({"deflate": [0, 1, 6, 9, -1], "bzip2": [1, 6, 9], "xz": [0, 1, 6, 9]}.get(sc.codec, [1, 6, 9]))
    sc.parsed = ch.chance(40)
    if ch.chance(15):
        # grouping into blocks decided by the caller: Writer class with explicit flushes in between
        sc.flushes = {i for i in range(-1, len(sc.records)) if ch.chance(35)}
    return sc


def encoded_sizes(sc):
    """Sizes of each record's binary encoding (reference encoder; used only to aim the
    sync_interval knob at threshold cases)."""
    out = []
    for r in sc.records:
        try:
            b, _ = refavro.encode(sc.node, strip_hints(r, sc.node))
            out.append(len(b))
        except Exception:
            out.append(8)
    return out


def draw_sync_interval(ch, sizes, sc=None):
    if sc is not None and sc.sync_interval_hint is not None:
        return sc.sync_interval_hint
    total = sum(sizes)
    first = sizes[0] if sizes else 1
    mode = ch.draw(6)
    if mode == 0:
        return 1
    if mode == 1:
        return max(1, first + ch.pick([0, -1, 1]))       # record == / just around interval
    if mode == 2:
        return max(1, total + ch.pick([0, -1, 1, 100]))  # everything in one block / beyond
    if mode == 3:
        return 16000
    if mode == 4:
        return max(1, 1 + ch.draw(max(1, total)))
    return ch.pick([2, 7, 16, 64])


def strip_hints(d, node=None):
    """Schema-directed removal of union hints ((name, value) tuples and '-type' keys);
    sequences become lists.  With node=None nothing is known about hints and the datum is
    returned unchanged."""
    if node is None:
        return d
    n = refavro.deref(node)
    k = n.k
    if k == "union":
        if isinstance(d, tuple) and len(d) == 2 and isinstance(d[0], str):
            for b in n.branches:
                if refavro.branch_name(b) == d[0]:
                    return strip_hints(d[1], b)
        # same preference as the independent encoder: a branch that accounts for every key of a
        # dict first (a record branch whose fields are all optional "conforms" to any dict, but
        # hints below keys it does not know would be left in place)
        for strict in (True, False):
            for b in n.branches:
                if refavro.conforms(b, d, strict_keys=strict):
                    return strip_hints(d, b)
        return d
    if k == "record" and isinstance(d, dict):
        out = {kk: v for kk, v in d.items() if kk != "-type"}
        for f in n.fields:
            if f.name in out:
                out[f.name] = strip_hints(out[f.name], f.type)
        return out
    if k == "array" and isinstance(d, (list, tuple)):
        return [strip_hints(x, n.items) for x in d]
    if k == "map" and isinstance(d, dict):
        return {kk: strip_hints(v, n.values) for kk, v in d.items()}
    return d


def fa_write(sc, fo, records=None):
    """Write the scenario with fastavro.writer to fo."""
    F = fa()
    schema = sc.schema
    if sc.parsed:
        schema = F.parse_schema(json.loads(json.dumps(sc.schema)))
    kw = {}
    if sc.metadata is not None:
        kw["metadata"] = dict(sc.metadata)
    if sc.level is not None:
        kw["codec_compression_level"] = sc.level
    if sc.sync_marker:
        kw["sync_marker"] = sc.sync_marker
    recs = sc.records if records is None else records
    if sc.flushes is None:
        F.writer(fo, schema, recs, codec=sc.codec, sync_interval=sc.sync_interval, validator=sc.validator, **kw)
        return
    if "codec_compression_level" in kw:
        kw["compression_level"] = kw.pop("codec_compression_level")
    w = F.write.Writer(fo, schema, sc.codec, sc.sync_interval, validator=sc.validator, **kw)
    if -1 in sc.flushes:
        w.flush()
    for i, r in enumerate(recs):
        w.write(r)
        if i in sc.flushes:
            w.flush()
    w.flush()


def fa_file(sc):
    fo = io.BytesIO()
    fa_write(sc, fo)
    return fo.getvalue()


def read_all(make_iter):
    """Drive an iterator factory; returns (yielded list, exception or None, stage)."""
    out = []
    try:
        it = make_iter()
    except Exception as e:  # noqa
        return out, e, "open"
    try:
        for x in it:
            out.append(x)
    except Exception as e:  # noqa
        return out, e, "iterate"
    return out, None, "end"


def read_blocks(make_iter):
    """block_reader driver: iterates every block; returns (records, blocks-meta, exc, stage)."""
    recs = []
    meta = []
    try:
        it = make_iter()
    except Exception as e:  # noqa
        return recs, meta, e, "open"
    try:
        for b in it:
            meta.append((b.offset, b.size, b.num_records))
            for r in b:
                recs.append(r)
    except Exception as e:  # noqa
        return recs, meta, e, "iterate"
    return recs, meta, None, "end"
