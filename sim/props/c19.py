"""C19 -- load_schema from per-type files is equivalent to parsing the same types inlined.

Schema storage sits behind the repository seam.  A seeded acyclic dependency graph of
named types is materialised (a) as one file per type in a fresh temp directory read by the
real FlatDictRepository and (b) in an in-memory SimRepository that logs every load.  The
oracle schema inlines each type at its first use in document order.  Fault: for every
type reachable from the top, its file / subject is removed (complete single-fault
enumeration per graph): loading must raise and name the missing type.
load_schema_ordered is driven with a seeded random linear extension of the dependency
order (the delivery-order dimension).
"""
import copy
import io
import json
import os
import shutil
import tempfile

import env
import gen
import refavro
from runner import Violation, jsonable
from props import common

ID = "C19"
LEVEL = "exploration"
QUICK_RUNS = 12000
QUICK_BUDGET_S = 50.0
THOROUGH_RUNS = 10 ** 9
BATCH = 50
RULE = ("one run = one seeded acyclic dependency graph of 2..10 named types (records, enums, fixed; one or several "
        "namespaces or the null namespace; diamonds and repeated use at several depths; references from fields, array "
        "items, map values and union branches; qualified or namespace-relative spelling per reference) loaded through "
        "FlatDictRepository (real temp dir) and an in-memory repository, compared with the inline parse (canonical form "
        "and bytes of a generated datum), plus load_schema_ordered under a seeded linear extension, plus EVERY single "
        "missing-file fault of the graph. one evaluation = one load. non-trivial = graph has >= 3 types; distinct = "
        "digest of the graph (files) and fault")
ASSUMPTIONS = [
    "pure-Python fastavro modules only",
    "graphs are acyclic; a namespace-relative spelling is used only where the specification resolves it to the intended type",
    "only the 'file missing' storage fault is injected (the property names no other)",
    "the number and order of repository loads are logged for reach, not asserted",
]
COMPONENTS = {
    "real": ["fastavro._schema_py.load_schema / load_schema_ordered / parse_schema", "fastavro.repository.FlatDictRepository on a real temp directory"],
    "stub": ["SimRepository (AbstractSchemaRepository subclass, in memory, logs loads)"],
    "oracle": ["inline-at-first-use schema built by the generator, parsed with parse_schema", "bytes of a generated datum under both schemas"],
}
PROBES = ["repository_object_reused", "diamond", "cross_namespace_edge", "relative_spelling", "depth_ge3", "ref_in_array", "ref_in_map",
          "ref_in_union", "missing_file_fault", "ordered_load", "null_namespace_graph", "enum_or_fixed_leaf", "depth_ge5"]
PRIMS = ["int", "string", "boolean", "double", "bytes", "long"]


def setup():
    env.load()


class Graph:
    def __init__(self, ch):
        self.ch = ch
        n = 2 + ch.draw(9)
        self.mode = ch.weighted([2, 3, 3])   # 0: null namespace, 1: one namespace, 2: several
        nss = [""] if self.mode == 0 else (["a.b"] if self.mode == 1 else ["a", "a.b", "c"])
        self.types = []
        for i in range(n):
            kind = "record" if i == 0 else ["record", "record", "enum", "fixed"][ch.draw(4)]
            ns = ch.pick(nss)
            name = f"T{i}"
            self.types.append({"i": i, "kind": kind, "ns": ns, "name": name,
                               "full": (ns + "." + name) if ns else name, "refs": [], "fields": []})
        self.edges = set()
        self.spell_rel = 0
        self.kinds_on_edges = set()
        self.chain = ch.chance(20)
        if self.chain:
            # long dependency chain: every type but the last is a record that refers to the next one
            for t in self.types[:-1]:
                t["kind"] = "record"
        # fields
        for t in self.types:
            if t["kind"] != "record":
                continue
            if self.chain and t["i"] + 1 < n:
                t["fields"].append(self._wrap(t, [self.types[t["i"] + 1]]))
            nf = 1 + ch.draw(4)
            for f in range(nf):
                later = [u for u in self.types if u["i"] > t["i"]]
                if later and ch.chance(65):
                    t["fields"].append(self._ref_field(t, later))
                else:
                    t["fields"].append(ch.pick(PRIMS))
        # make every type reachable from an earlier record
        for u in self.types[1:]:
            if not any((r["i"], u["i"]) in self.edges for r in self.types if r["i"] < u["i"]):
                recs = [r for r in self.types if r["i"] < u["i"] and r["kind"] == "record"]
                r = ch.pick(recs)
                r["fields"].append(self._wrap(r, [u]))
        # prune types unreachable from the top (references only come from reachable records)
        reach = {0}
        stack = [0]
        while stack:
            i = stack.pop()
            for (a, b) in self.edges:
                if a == i and b not in reach:
                    reach.add(b)
                    stack.append(b)
        self.reach = reach

    def _spelling(self, frm, to):
        if to["ns"] == frm["ns"] and to["ns"] != "" and self.ch.chance(50):
            self.spell_rel += 1
            return to["name"]
        return to["full"]

    def _wrap(self, frm, targets):
        ch = self.ch
        for u in targets:
            self.edges.add((frm["i"], u["i"]))
        sp = [self._spelling(frm, u) for u in targets]
        how = ch.draw(5)
        if len(sp) > 1:
            self.kinds_on_edges.add("union")
            return (["null"] + sp) if ch.draw(2) else sp
        if how == 0:
            return sp[0]
        if how == 1:
            self.kinds_on_edges.add("array")
            return {"type": "array", "items": sp[0]}
        if how == 2:
            self.kinds_on_edges.add("map")
            return {"type": "map", "values": sp[0]}
        if how == 3:
            self.kinds_on_edges.add("union")
            return ["null", sp[0]]
        return sp[0]

    def _ref_field(self, frm, later):
        ch = self.ch
        if len(later) >= 2 and ch.chance(20):
            a = ch.pick(later)
            b = ch.pick([u for u in later if u is not a])
            return self._wrap(frm, [a, b])
        return self._wrap(frm, [ch.pick(later)])

    def json_of(self, t, style):
        """The content of the file for type t."""
        base = {}
        if style == "dotted" and t["ns"]:
            base["name"] = t["full"]
        else:
            base["name"] = t["name"]
            if t["ns"]:
                base["namespace"] = t["ns"]
        if t["kind"] == "enum":
            return dict(type="enum", symbols=["A", "B", "C"][: 1 + t["i"] % 3], **base)
        if t["kind"] == "fixed":
            return dict(type="fixed", size=1 + t["i"] % 4, **base)
        return dict(type="record", fields=[{"name": f"f{j}", "type": copy.deepcopy(ft)} for j, ft in enumerate(t["fields"])], **base)

    def files(self):
        out = {}
        for t in self.types:
            if t["i"] in self.reach:
                out[t["full"]] = self.json_of(t, "dotted" if (t["i"] % 3 == 1) else "attr")
        return out

    def inline(self):
        """Oracle: each type defined at its first use in document order."""
        files = self.files()
        by_full = {t["full"]: t for t in self.types}
        defined = set()

        def full_of(name, ns):
            return name if "." in name else ((ns + "." + name) if ns else name)

        def expand(s, ns):
            if isinstance(s, str):
                if s in PRIMS or s == "null":
                    return s
                full = full_of(s, ns)
                if full in defined:
                    return s
                return define(full)
            if isinstance(s, list):
                return [expand(b, ns) for b in s]
            if isinstance(s, dict):
                t = s["type"]
                if t == "array":
                    return {"type": "array", "items": expand(s["items"], ns)}
                if t == "map":
                    return {"type": "map", "values": expand(s["values"], ns)}
            return s

        def define(full):
            defined.add(full)
            t = by_full[full]
            j = copy.deepcopy(files[full])
            if j["type"] == "record":
                for f in j["fields"]:
                    f["type"] = expand(f["type"], t["ns"])
            return j

        return define(self.types[0]["full"])

    def shape(self):
        indeg = {}
        for (a, b) in self.edges:
            if a in self.reach:
                indeg[b] = indeg.get(b, 0) + 1
        # depth
        depth = {0: 0}
        changed = True
        while changed:
            changed = False
            for (a, b) in sorted(self.edges):
                if a in depth and depth.get(b, -1) < depth[a] + 1:
                    depth[b] = depth[a] + 1
                    changed = True
        return {"types": len(self.reach), "diamond": any(v > 1 for v in indeg.values()),
                "max_depth": max(depth.values()), "cross_ns": any(self.types[a]["ns"] != self.types[b]["ns"] for (a, b) in self.edges if a in self.reach)}

    def linear_extension(self):
        """Dependencies first, top last, otherwise seeded-random."""
        remaining = set(self.reach)
        order = []
        while remaining:
            ready = sorted(i for i in remaining if not any((i, b) in self.edges and b in remaining for b in self.reach))
            pick = self.ch.pick(ready)
            order.append(pick)
            remaining.discard(pick)
        return order


def make_sim_repo(F, files, log):
    from fastavro.repository import AbstractSchemaRepository, SchemaRepositoryError

    class SimRepository(AbstractSchemaRepository):
        def load(self, name):
            log.append(name)
            if name not in files:
                raise SchemaRepositoryError(f"no subject {name}")
            return copy.deepcopy(files[name])

    return SimRepository()


def _names_missing(exc, full, F):
    from fastavro.repository import SchemaRepositoryError
    if isinstance(exc, F.schema.UnknownType):
        return exc.name == full
    return full in str(exc)


def run_one(ch, ctx):
    F = common.fa()
    g = Graph(ch)
    files = g.files()
    top = g.types[0]["full"]
    inline = g.inline()
    shape = g.shape()
    desc = {"files": files, "top": top, "inline": inline, "shape": shape}
    if shape["diamond"]:
        ctx.probe("diamond")
    if shape["cross_ns"]:
        ctx.probe("cross_namespace_edge")
    if g.spell_rel:
        ctx.probe("relative_spelling")
    if shape["max_depth"] >= 3:
        ctx.probe("depth_ge3")
    if shape["max_depth"] >= 5:
        ctx.probe("depth_ge5")
    for k in g.kinds_on_edges:
        ctx.probe("ref_in_" + k)
    if g.mode == 0:
        ctx.probe("null_namespace_graph")
    if any(t["kind"] != "record" for t in g.types if t["i"] in g.reach):
        ctx.probe("enum_or_fixed_leaf")
    try:
        p_inline = F.parse_schema(copy.deepcopy(inline))
        cf_inline = F.schema.to_parsing_canonical_form(p_inline)
    except Exception as e:  # noqa
        raise Violation("oracle", "inline-schema-rejected", detail={"exc": jsonable(e)}, scenario=desc)
    node = refavro.resolve(inline)
    dg = gen.DataGen(ch, max_len=2, big_collections=False, tuples=False, hints=False)
    datum = dg.datum(node)
    fo = io.BytesIO()
    F.schemaless_writer(fo, p_inline, datum)
    want_bytes = fo.getvalue()

    def check_loaded(p, how):
        ctx.evals += 1
        cf = F.schema.to_parsing_canonical_form(p)
        if cf != cf_inline:
            raise Violation("equivalence", "canonical-form-differs", detail={"how": how, "loaded": cf, "inline": cf_inline}, scenario=desc)
        # the loaded schema must stay usable: a container file written with it is self-describing
        if isinstance(how, str) and "SimRepository" in how:
            return
        try:
            fo = io.BytesIO()
            F.writer(fo, p, [datum], sync_marker=b"\x05" * 16)
            fo.seek(0)
            r = F.reader(fo)
            back = list(r)
            cf_file = F.schema.to_parsing_canonical_form(r.writer_schema)
        except Exception as e:  # noqa
            raise Violation("equivalence", "loaded-schema-not-usable-in-container", detail={"how": how, "exc": jsonable(e)}, scenario=desc)
        if cf_file != cf_inline or len(back) != 1:
            raise Violation("equivalence", "container-header-schema-differs", detail={"how": how, "file": cf_file, "inline": cf_inline}, scenario=desc)
        fo = io.BytesIO()
        try:
            F.schemaless_writer(fo, p, datum)
        except Exception as e:  # noqa
            raise Violation("equivalence", "loaded-schema-cannot-encode", detail={"how": how, "exc": jsonable(e), "datum": jsonable(datum)}, scenario=desc)
        if fo.getvalue() != want_bytes:
            raise Violation("equivalence", "encoding-differs", detail={"how": how, "loaded": fo.getvalue().hex(), "inline": want_bytes.hex(), "datum": jsonable(datum)}, scenario=desc)

    tmp = tempfile.mkdtemp(prefix="verif-c19-")
    try:
        for name, sch in files.items():
            with open(os.path.join(tmp, name + ".avsc"), "w") as f:
                json.dump(sch, f)
        # ---- fault-free: real directory ---------------------------------------------
        try:
            p = F.schema.load_schema(os.path.join(tmp, top + ".avsc"))
        except Exception as e:  # noqa
            raise Violation("equivalence", "load-raises", detail={"how": "flatdict", "exc": jsonable(e)}, scenario=desc)
        check_loaded(p, "load_schema/FlatDictRepository")
        # ---- fault-free: in-memory repository ------------------------------------------
        log = []
        try:
            p = F.schema.load_schema(top, repo=make_sim_repo(F, files, log))
        except Exception as e:  # noqa
            raise Violation("equivalence", "load-raises", detail={"how": "simrepo", "exc": jsonable(e)}, scenario=desc)
        check_loaded(p, "load_schema/SimRepository")
        ctx.stat("repo_loads", len(log))
        # ---- one repository OBJECT reused for several loads (first a dependency, then the top type) ----
        if len(g.reach) > 1 and ch.chance(40):
            from fastavro.repository import FlatDictRepository
            ctx.probe("repository_object_reused")
            repo = FlatDictRepository(tmp)
            firsts = [g.types[i]["full"] for i in ch.shuffle(sorted(g.reach))[:1 + ch.draw(2)] if g.types[i]["full"] != top]
            for nm in firsts:
                try:
                    F.schema.load_schema(nm, repo=repo)
                except Exception as e:  # noqa
                    raise Violation("equivalence", "load-raises", detail={"how": "shared-repository-object", "name": nm, "exc": jsonable(e)}, scenario=desc)
            try:
                p = F.schema.load_schema(top, repo=repo)
            except Exception as e:  # noqa
                raise Violation("equivalence", "load-raises", detail={"how": "shared-repository-object", "loaded_before": firsts, "exc": jsonable(e)}, scenario=desc)
            check_loaded(p, {"load_schema/one FlatDictRepository object, loaded before": firsts})
        # ---- ordered: seeded linear extension ---------------------------------------------
        order = g.linear_extension()
        paths = [os.path.join(tmp, g.types[i]["full"] + ".avsc") for i in order]
        try:
            p = F.schema.load_schema_ordered(paths)
        except Exception as e:  # noqa
            raise Violation("equivalence", "load-ordered-raises", detail={"order": [g.types[i]["full"] for i in order], "exc": jsonable(e)}, scenario=desc)
        ctx.probe("ordered_load")
        check_loaded(p, {"load_schema_ordered": [g.types[i]["full"] for i in order]})
        # ---- single-fault enumeration: every reachable type's file missing -------------------
        nfaults = 0
        for i in sorted(g.reach):
            t = g.types[i]
            full = t["full"]
            path = os.path.join(tmp, full + ".avsc")
            os.rename(path, path + ".gone")
            try:
                for how in ("flatdict", "simrepo", "ordered"):
                    if how == "ordered" and i == 0:
                        continue
                    ctx.fault("missing")
                    nfaults += 1
                    ctx.evals += 1
                    try:
                        if how == "flatdict":
                            p = F.schema.load_schema(os.path.join(tmp, top + ".avsc"))
                        elif how == "simrepo":
                            sub = {k: v for k, v in files.items() if k != full}
                            p = F.schema.load_schema(top, repo=make_sim_repo(F, sub, []))
                        else:
                            p = F.schema.load_schema_ordered([q for q in paths if q != path])
                    except Exception as e:  # noqa
                        if not _names_missing(e, full, F):
                            raise Violation("missing-file", "error-does-not-name-missing-type",
                                            detail={"how": how, "missing": full, "exc": jsonable(e), "exc_name": getattr(e, "name", None)}, scenario=desc)
                        continue
                    raise Violation("missing-file", "load-succeeds-without-file", detail={"how": how, "missing": full,
                                    "loaded": F.schema.to_parsing_canonical_form(p)}, scenario=desc)
            finally:
                os.rename(path + ".gone", path)
        ctx.probe("missing_file_fault", nfaults)
    finally:
        shutil.rmtree(tmp, ignore_errors=True)
    ctx.steps += ctx.evals
    ctx.ev("graph", json.dumps(files, sort_keys=True), order)
    ctx.sample = desc
    if shape["types"] >= 3:
        ctx.keyw(("graph", json.dumps(files, sort_keys=True)), 3 + nfaults)
