"""C18 -- concurrent operations on distinct streams behave as if run sequentially.

2-3 tasks (real threads) run fastavro operations on their own streams while sharing
parsed schema objects; a seeded scheduler decides every context switch at CPython switch
points inside fastavro code (sys.monitoring).  Oracle: each task's observation must equal
the observation of the same operation list run alone in a fresh thread.
"""
import copy
import datetime
import decimal
import io
import json
import uuid

import env
import fresh
import gen
import ops
import refavro
import sched
from runner import Violation, jsonable, canon
from props import common

ID = "C18"
LEVEL = "exploration"
QUICK_RUNS = 5000
QUICK_BUDGET_S = 50.0
THOROUGH_RUNS = 10 ** 9
BATCH = 100
RULE = ("one run = one seeded tuple of 2-3 operation lists (executed under 2 (quick) / 6 (thorough) seeded schedules) (schemaless/container read and write with and "
        "without logical types, validate, parse_schema, canonical form, fingerprint, JSON read/write) on "
        "distinct streams sharing parsed schema objects, each schedule uniform, "
        "sticky or PCT depth 1-3, 20% of them executed in a fresh fork of a pristine process, and each one switches only at CPython switch points in fastavro code; one "
        "evaluation = one schedule. non-trivial = at least one context switch happened while both tasks "
        "were inside fastavro frames; distinct = (operation tuple digest, interleaving signature = hash of "
        "the sequence of (task, code location, next task) at actual switches)")
ASSUMPTIONS = [
    "CPython 3.12.1 switch points as delivered by sys.monitoring local events (PY_START/RESUME/RETURN/YIELD, C_RETURN/C_RAISE, backward JUMP) on fastavro code objects: a sound subset of the real switch points",
    "pure-Python fastavro modules only; no free-threaded build",
    "operations never share a stream, a Writer, a named-schema dictionary being filled, or Python's global random",
    "sync markers are passed explicitly so os.urandom is not a hidden shared input",
]
COMPONENTS = {
    "real": ["fastavro (all pure-Python modules, instrumented via sys.monitoring)", "threading.Thread", "io.BytesIO / io.StringIO"],
    "stub": ["scheduler (baton passing; decides who runs)"],
    "oracle": ["solo run of the same operation list in a fresh thread"],
}
PROBES = ["prehistory_before_threads", "both_in_read_decimal", "both_in_parse", "both_in_writer_dump", "both_in_validate",
          "family_decimal", "family_logical", "family_general", "family_parse", "family_json", "family_resolve",
          "family_expand", "family_deep",
          "three_tasks", "strategy_pct", "strategy_uniform", "strategy_sticky", "fresh_process_schedule"]


def setup():
    env.load()
    sched.instrument(env.REPO)
    fresh.server()   # pristine: forked before this process ever calls fastavro


UTC = datetime.timezone.utc


def _decimal_value(ch, prec, scale):
    digits = 1 + ch.draw(prec)
    n = ch.rng_int(10 ** (digits - 1) if digits > 1 else 0, 10 ** digits - 1)
    if ch.draw(2):
        n = -n
    return decimal.Decimal(n).scaleb(-scale)


def _dec_schema(ch, prec, scale, kind, i):
    if kind == "bytes":
        return {"type": "bytes", "logicalType": "decimal", "precision": prec, "scale": scale}
    size = 1
    while int((8 * size - 1) * 0.30102999566398114) < prec:
        size += 1
    size += ch.draw(2)
    return {"type": "fixed", "name": f"Dec{i}", "size": size, "logicalType": "decimal",
            "precision": prec, "scale": scale}


LOGICAL_RECORD = {
    "type": "record", "name": "L", "fields": [
        {"name": "ts_ms", "type": {"type": "long", "logicalType": "timestamp-millis"}},
        {"name": "ts_us", "type": {"type": "long", "logicalType": "timestamp-micros"}},
        {"name": "d", "type": {"type": "int", "logicalType": "date"}},
        {"name": "t_ms", "type": {"type": "int", "logicalType": "time-millis"}},
        {"name": "t_us", "type": {"type": "long", "logicalType": "time-micros"}},
        {"name": "u", "type": {"type": "string", "logicalType": "uuid"}},
        {"name": "lts", "type": {"type": "long", "logicalType": "local-timestamp-micros"}},
        {"name": "dec", "type": {"type": "bytes", "logicalType": "decimal", "precision": 9, "scale": 2}},
    ]}


def _logical_datum(ch):
    tz = datetime.timezone(datetime.timedelta(minutes=ch.pick([0, 60, -330, 765])))
    base = datetime.datetime(1970, 1, 1, tzinfo=UTC) + datetime.timedelta(
        days=ch.rng_int(-20000, 40000), seconds=ch.draw(86400), microseconds=ch.draw(1000000))
    return {
        "ts_ms": base.astimezone(tz),
        "ts_us": base.astimezone(tz),
        "d": datetime.date(1970, 1, 1) + datetime.timedelta(days=ch.rng_int(-100000, 100000)),
        "t_ms": datetime.time(ch.draw(24), ch.draw(60), ch.draw(60), ch.draw(1000) * 1000),
        "t_us": datetime.time(ch.draw(24), ch.draw(60), ch.draw(60), ch.draw(1000000)),
        "u": uuid.UUID(int=ch.rng_int(0, (1 << 128) - 1)),
        "lts": (base.replace(tzinfo=None)),
        "dec": _decimal_value(ch, 9, 2),
    }


def build(ch, F):
    """Returns (family, base_env, task op lists)."""
    fam = ch.weighted([12, 6, 12, 6, 6, 9, 6, 1])   # the deep family costs ~1 s per run: under 2 % of runs
    E = {}
    tasks = []
    ntasks = 3 if ch.chance(20) else 2
    marker = b"\x07" * 16

    def io_ops(schema_name, datum_name, records_name, t, allow_json=False):
        """A short list of operations over one (schema, datum) for task t."""
        out = []
        n = 1 + ch.draw(3)
        for j in range(n):
            kind = ch.draw(7 if allow_json else 5)
            if kind == 0:
                out.append({"op": "swrite", "schema": schema_name, "datum": datum_name})
            elif kind == 1:
                out.append({"op": "sread", "schema": schema_name, "bytes": f"B_{datum_name}"})
            elif kind == 2:
                out.append({"op": "cwrite", "schema": schema_name, "records": records_name,
                            "opts": {"codec": ch.pick(["null", "deflate"]), "sync_marker": marker,
                                     "sync_interval": ch.pick([1, 50, 16000])}})
            elif kind == 3:
                out.append({"op": "cread", "bytes": f"C_{records_name}"})
            elif kind == 4:
                out.append({"op": "validate", "schema": schema_name, "datum": datum_name,
                            "opts": {"raise_errors": False}})
            elif kind == 5:
                out.append({"op": "jwrite", "schema": schema_name, "records": records_name})
            else:
                out.append({"op": "jread", "schema": schema_name, "text": f"J_{records_name}"})
        return out

    def materialise(schema_name, datum_name, records_name, with_json):
        """Pre-compute the inputs the read operations need (unscheduled, main thread)."""
        o = ops.apply(F, {"op": "swrite", "schema": schema_name, "datum": datum_name, "out": f"B_{datum_name}"}, E)
        o2 = ops.apply(F, {"op": "cwrite", "schema": schema_name, "records": records_name, "out": f"C_{records_name}",
                           "opts": {"sync_marker": marker, "sync_interval": 40}}, E)
        if o["exc"] or o2["exc"]:
            return False
        if with_json:
            o3 = ops.apply(F, {"op": "jwrite", "schema": schema_name, "records": records_name, "out": f"J_{records_name}"}, E)
            if o3["exc"]:
                return False
        return True

    if fam == 6:
        # expand_schema / re-parse of an ALREADY PARSED shared schema in one task, ordinary use of the
        # same object (write, validate, read with it as reader schema, JSON) in the others
        S = {"type": "record", "name": "Outer", "fields": [
            {"name": "a", "type": {"type": "record", "name": "Inner", "fields": [{"name": "x", "type": "int"}, {"name": "s", "type": "string"}]}},
            {"name": "b", "type": "Inner"}, {"name": "c", "type": {"type": "array", "items": "Inner"}},
            {"name": "e", "type": {"type": "enum", "name": "En", "symbols": ["P", "Q"]}}, {"name": "e2", "type": ["null", "En"]}]}
        E["P"] = F.parse_schema(S)
        mk = lambda: {"a": {"x": ch.draw(100), "s": ch.pick(["p", "qq"])}, "b": {"x": 1, "s": ""},
                      "c": [{"x": i, "s": "i"} for i in range(ch.draw(3))], "e": ch.pick(["P", "Q"]), "e2": ch.pick([None, "Q"])}
        first = []
        for j in range(1 + ch.draw(3)):
            k = ch.draw(3)
            first.append({"op": "expand", "schema": "P"} if k < 2 else {"op": "parse", "schema": "P"})
        tasks.append(first)
        for t in range(1, ntasks):
            E[f"D{t}"] = mk()
            E[f"R{t}"] = [mk() for _ in range(1 + ch.draw(2))]
            if not materialise("P", f"D{t}", f"R{t}", True):
                return None
            lst = io_ops("P", f"D{t}", f"R{t}", t, allow_json=True)
            if ch.chance(40):
                lst.append({"op": "sread", "schema": "P", "bytes": f"B_D{t}", "reader": "P"})
            tasks.append(lst)
        return "expand", E, tasks
    if fam == 7:
        # deep recursive data: every task decodes a linked list of depth 45..80 (three tasks of 45
        # or two of 80 hold more than 100 frames of read_data between them)
        S = {"type": "record", "name": "Node", "fields": [{"name": "v", "type": "int"}, {"name": "next", "type": ["null", "Node"]}]}
        E["P"] = F.parse_schema(S)
        for t in range(ntasks):
            depth = ch.pick([45, 45, 60, 80])
            d = None
            for i in range(depth):
                d = {"v": i, "next": d}
            E[f"D{t}"] = d
            E[f"R{t}"] = [d, {"v": -1, "next": None}]
            if not materialise("P", f"D{t}", f"R{t}", False):
                return None
            lst = []
            for j in range(1):
                k = ch.draw(4)
                lst.append([{"op": "sread", "schema": "P", "bytes": f"B_D{t}"}, {"op": "cread", "bytes": f"C_R{t}"},
                            {"op": "bread", "bytes": f"C_R{t}"}, {"op": "cread", "bytes": f"C_R{t}", "reader": "P"}][k])
            tasks.append(lst)
        return "deep", E, tasks
    if fam == 5:
        # schema resolution against one SHARED parsed reader schema
        wfields = [("a", "int"), ("b", "string"), ("c", "float"), ("d", "long"), ("g", ["null", "string"])]
        W = {"type": "record", "name": "Rec", "fields": [{"name": n, "type": t} for n, t in wfields]}
        promo = {"a": ch.pick(["int", "long", "double"]), "b": ch.pick(["string", "bytes"]), "c": ch.pick(["float", "double"]),
                 "d": ch.pick(["long", "double"]), "g": ["null", "string"]}
        rf = [{"name": n, "type": promo[n]} for n, _ in ch.shuffle(wfields) if ch.chance(80)]
        rf.insert(ch.draw(len(rf) + 1), {"name": "e", "type": "string", "default": "added"})
        if ch.chance(50):
            rf.append({"name": "renamed", "type": "long", "aliases": ["zz"], "default": 5})
        nested = ch.chance(50)
        if nested:
            # a nested record on both sides: a second reader record schema is first used in mid-record
            W["fields"].append({"name": "n", "type": {"type": "record", "name": "Inner", "fields": [
                {"name": "p", "type": "int"}, {"name": "q", "type": "string"}]}})
            rf.insert(ch.draw(len(rf) + 1), {"name": "n", "type": {"type": "record", "name": "Inner", "fields": [
                {"name": "q", "type": "string"}, {"name": "r", "type": "long", "default": 9}]}})
        Rd = {"type": "record", "name": "Rec", "fields": rf}
        E["P"] = F.parse_schema(W)
        E["RD"] = F.parse_schema(Rd)
        own_reader = ch.chance(40)   # every task resolves against its OWN parsed copy of the reader schema
        if own_reader:
            for t in range(ntasks):
                E[f"RD{t}"] = F.parse_schema(copy.deepcopy(Rd))
        for t in range(ntasks):
            def mk():
                d = {"a": ch.rng_int(-1000, 1000), "b": ch.pick(["x", "beta", "é"]), "c": float(ch.draw(100)) / 4,
                     "d": ch.rng_int(-(1 << 40), 1 << 40), "g": ch.pick([None, "s"])}
                if nested:
                    d["n"] = {"p": ch.draw(100), "q": ch.pick(["", "q"])}
                return d
            rdn = f"RD{t}" if own_reader else "RD"
            E[f"D{t}"] = mk()
            E[f"R{t}"] = [mk() for _ in range(1 + ch.draw(3))]
            if not materialise("P", f"D{t}", f"R{t}", False):
                return None
            lst = []
            for j in range(1 + ch.draw(2)):
                if ch.draw(2):
                    lst.append({"op": "sread", "schema": "P", "bytes": f"B_D{t}", "reader": rdn})
                else:
                    lst.append({"op": "cread", "bytes": f"C_R{t}", "reader": rdn})
            tasks.append(lst)
        return "resolve", E, tasks
    if fam == 0:
        # decimals of differing precision / scale, bytes and fixed; shared or distinct parsed schemas
        for t in range(ntasks):
            prec = ch.pick([2, 30, 5, 18, 1, 38])
            scale = ch.draw(min(prec, 6) + 1)
            kind = ch.pick(["bytes", "bytes", "fixed"])
            E[f"P{t}"] = F.parse_schema(_dec_schema(ch, prec, scale, kind, t))
            E[f"D{t}"] = _decimal_value(ch, prec, scale)
            E[f"R{t}"] = [_decimal_value(ch, prec, scale) for _ in range(1 + ch.draw(3))]
            if not materialise(f"P{t}", f"D{t}", f"R{t}", False):
                return None
            if ch.chance(60):
                lst = [{"op": "sread", "schema": f"P{t}", "bytes": f"B_D{t}"}]
                if ch.chance(30):
                    lst.append({"op": "cread", "bytes": f"C_R{t}"})
            else:
                lst = io_ops(f"P{t}", f"D{t}", f"R{t}", t)
            tasks.append(lst)
        return "decimal", E, tasks
    if fam == 1:
        E["P"] = F.parse_schema(copy.deepcopy(LOGICAL_RECORD))
        for t in range(ntasks):
            E[f"D{t}"] = _logical_datum(ch)
            E[f"R{t}"] = [_logical_datum(ch) for _ in range(1 + ch.draw(3))]
            if not materialise("P", f"D{t}", f"R{t}", False):
                return None
            tasks.append(io_ops("P", f"D{t}", f"R{t}", t))
        return "logical", E, tasks
    if fam == 2 or fam == 4:
        schema, _ = gen.schema(ch, max_depth=2, max_fields=3, top="record" if fam == 4 else "any", wide=False)
        node = refavro.resolve(schema)
        E["P"] = F.parse_schema(copy.deepcopy(schema))
        shared = ch.chance(70)
        dg = gen.DataGen(ch, max_len=2, big_collections=False, hints=False, tuples=False)
        for t in range(ntasks):
            if not shared and t > 0:
                E[f"P{t}"] = F.parse_schema(copy.deepcopy(schema))
            pname = "P" if shared or t == 0 else f"P{t}"
            E[f"D{t}"] = dg.datum(node)
            E[f"R{t}"] = [dg.datum(node) for _ in range(1 + ch.draw(3))]
            if not materialise(pname, f"D{t}", f"R{t}", fam == 4):
                return None
            tasks.append(io_ops(pname, f"D{t}", f"R{t}", t, allow_json=(fam == 4)))
        return ("json" if fam == 4 else "general"), E, tasks
    # parse family: raw copies into private dicts, shared parsed object re-parsed, canonical form, fingerprints
    schema, _ = gen.schema(ch, max_depth=3, max_fields=4, wide=False)
    E["RAW"] = schema
    E["P"] = F.parse_schema(copy.deepcopy(schema))
    for t in range(ntasks):
        lst = []
        for j in range(1 + ch.draw(3)):
            k = ch.draw(5)
            if k == 0:
                E[f"RAW{t}_{j}"] = copy.deepcopy(schema)
                E[f"NS{t}_{j}"] = {}
                lst.append({"op": "parse", "schema": f"RAW{t}_{j}", "into": f"NS{t}_{j}"})
            elif k == 1:
                lst.append({"op": "parse", "schema": "P"})
            elif k == 2:
                lst.append({"op": "canon", "schema": ch.pick(["P", "RAW"])})
            elif k == 3:
                lst.append({"op": "fingerprint", "schema": "P", "algo": ch.pick(["CRC-64-AVRO", "md5", "SHA-256"])})
            else:
                E[f"NS{t}_{j}"] = {}
                lst.append({"op": "parse", "schema": "P", "into": f"NS{t}_{j}"})
        tasks.append(lst)
    return "parse", E, tasks


def _task_fn(F, E, lst):
    def fn():
        priv = dict(E)
        for k, v in E.items():
            if k.startswith("NS"):
                priv[k] = {}
        return [ops.apply(F, d, priv) for d in lst]
    return fn


def _run_sched(F, E, tasks, seed, strategy):
    sc = sched.Scheduler(seed, strategy, max_steps=400000)
    # every execution gets fresh copies of all objects (shared among its tasks): a race in
    # the FIRST use of a shared parsed schema (e.g. a lazily filled per-schema cache) would
    # otherwise be masked by the solo runs having used the same objects before
    E = copy.deepcopy(E)
    for i, lst in enumerate(tasks):
        sc.spawn(f"T{i}", _task_fn(F, E, lst))
    res = sc.run()
    return sc, res


def _both_in(sc, names):
    for a, b in sc.pairs:
        fa_, fb = a.split(":")[0], b.split(":")[0]
        if fa_ in names and fb in names:
            return True
    return False


def _prehistory(F, n):
    """n earlier single-threaded calls with their own short-lived schemas (resolution against a reader schema,
    plain round trips): brings per-process tables to a known fill level -- just below, at, or just above the
    usual capacities -- before the threads start."""
    for i in range(n):
        ops.apply(F, {"op": "churn", "i": 100000 + i, "kind": "resolve"}, {})


def fresh_sched_job(prefix, sseed, strategy, pre=0):
    """Runs inside a fresh fork of the pristine server: rebuild the scenario from the
    recorded choice prefix and execute the scheduled run there, so that one-time lazy
    initialisation inside fastavro (a table built on first use, ...) happens UNDER the
    schedule instead of having been done by earlier runs of this worker."""
    from choices import Choices
    F = common.fa()
    ch = Choices(recorded=prefix)
    fam, E, tasks = build(ch, F)
    _prehistory(F, pre)
    try:
        sc, res = _run_sched(F, E, tasks, sseed, tuple(strategy))
    except (sched.Deadlock, sched.StepCap, sched.Stall) as e:
        return {"abort": type(e).__name__, "what": str(e)}
    out = {}
    for k, v in res.items():
        out[k] = (v[0], v[1] if v[0] == "ok" else repr(v[1]))
    return {"tasks": json.dumps([[ops.describe(d) for d in lst] for lst in tasks], sort_keys=True, default=str),
            "res": out, "sig": sc.signature(), "step": sc.step, "switches": [list(x) for x in sc.switches],
            "pairs": [list(x) for x in sc.pairs], "decisions": [list(x) for x in sc.decisions]}


class _FreshSched:
    """Quacks like the bits of Scheduler that run_one reads afterwards."""

    def __init__(self, d):
        self.step = d["step"]
        self.switches = [tuple(x) for x in d["switches"]]
        self.pairs = {tuple(x) for x in d["pairs"]}
        self.decisions = [tuple(x) for x in d["decisions"]]
        self._sig = d["sig"]

    def signature(self):
        return self._sig


def run_one(ch, ctx):
    srv = fresh.server()
    F = common.fa()
    built = build(ch, F)
    prefix = list(ch.record)
    if built is None:
        from runner import Discard
        raise Discard("setup_op_failed")
    fam, E, tasks = built
    ctx.probe("family_" + fam)
    if len(tasks) == 3:
        ctx.probe("three_tasks")
    desc = {"family": fam, "tasks": [[ops.describe(d) for d in lst] for lst in tasks],
            "objects": {k: jsonable(v) if not k.startswith("P") else "<parsed schema>" for k, v in E.items() if not k.startswith(("B_", "C_", "J_"))}}
    # solo runs (each alone, fresh thread, same scheduler machinery with a single task)
    solo = []
    steps = 0
    for i, lst in enumerate(tasks):
        sc = sched.Scheduler(0, ("uniform",))
        sc.spawn(f"T{i}", _task_fn(F, copy.deepcopy(E), lst))
        r = sc.run()[f"T{i}"]
        if r[0] != "ok":
            raise Violation("solo", "task-crashed", detail={"task": i, "res": jsonable(r[1])}, scenario=desc)
        solo.append(r[1])
        steps += sc.step
    nsched = 2 if ctx.tier == "quick" else 6
    if fam == "deep":
        nsched = 1 if ctx.tier == "quick" else 3
    for si in range(nsched):
        sseed, strategy, in_fresh, pre = draw_schedule(ch, steps, fam)
        ctx.probe("strategy_" + strategy[0])
        if in_fresh:
            ctx.probe("fresh_process_schedule")
            if pre:
                ctx.probe("prehistory_before_threads")
            d = srv.call("props.c18", "fresh_sched_job", (prefix, sseed, list(strategy), pre))
            if "abort" in d:
                raise Violation("liveness", d["abort"], detail=d["what"], scenario=desc)
            if d["tasks"] != json.dumps(desc["tasks"], sort_keys=True, default=str):
                raise RuntimeError("harness error: the fresh process rebuilt a different scenario from the choice prefix")
            sc = _FreshSched(d)
            res = d["res"]
        else:
            try:
                sc, res = _run_sched(F, E, tasks, sseed, strategy)
            except (sched.Deadlock, sched.StepCap, sched.Stall) as e:
                raise Violation("liveness", type(e).__name__, detail=str(e), scenario=desc)
        ctx.evals += 1
        ctx.steps += sc.step
        ctx.fault("preempt", len(sc.switches))
        if _both_in(sc, {"read_decimal"}):
            ctx.probe("both_in_read_decimal")
        if _both_in(sc, {"parse_schema", "_parse_schema", "parse_field"}):
            ctx.probe("both_in_parse")
        if _both_in(sc, {"dump", "write", "flush", "null_write_block", "deflate_write_block"}):
            ctx.probe("both_in_writer_dump")
        if _both_in(sc, {"_validate", "_validate_record", "_validate_union", "validate"}):
            ctx.probe("both_in_validate")
        ctx.ev_sched("sched", sc.signature(), sc.step, len(sc.switches))
        ctx.sample = {"scenario": desc, "strategy": list(strategy), "switches": len(sc.switches),
                      "first_switches": [list(x) for x in sc.switches[:6]]}
        bad = _diff(solo, res, len(tasks))
        if bad is not None:
            t, j = bad[0], bad[1]
            raise Violation("interleaving", "differs-from-solo",
                            detail={"task": t, "op_index": j, "op": ops.describe(tasks[t][j]) if j is not None else None,
                                    "solo": bad[2], "under_schedule": bad[3], "strategy": list(strategy), "schedule_index": si,
                                    "switches": len(sc.switches), "scheduled_run_in_fresh_process": in_fresh,
                                    "single_threaded_calls_before": pre if in_fresh else None},
                            sig=f"interleaving:differs-from-solo:{fam}", scenario=desc)
        inside = sum(1 for x in sc.switches if ":" in str(x[2]))
        if inside >= 1:
            ctx.key(json.dumps(desc["tasks"], sort_keys=True, default=str), sc.signature())
    ctx.ev("ops", json.dumps(desc["tasks"], sort_keys=True, default=str))


def draw_schedule(ch, steps, fam=None):
    sseed = ch.fork("sched")
    sk = ch.weighted([3, 3, 4])
    if sk == 0:
        strategy = ("uniform",)
    elif sk == 1:
        strategy = ("sticky", ch.pick([500, 900, 990]))
    else:
        strategy = ("pct", 1 + ch.draw(3), max(2, steps))
    in_fresh = ch.chance(20)
    pre = 0
    if in_fresh and ch.chance(80 if fam == "resolve" else 25):
        pre = ch.pick([31, 32, 62, 63, 64, 65, 126, 127, 128, 254, 255, 256])
    return sseed, strategy, in_fresh, pre


def _diff(solo, res, n):
    for t in range(n):
        r = res[f"T{t}"]
        if r[0] != "ok":
            return (t, None, "ok", jsonable(r))
        for j, (a, b) in enumerate(zip(solo[t], r[1])):
            if a != b:
                return (t, j, a, b)
    return None


def refine(recorded):
    """Specialised schedule minimisation, run once on the minimised choice list: drop
    pre-emptions (script entries relative to each task's own step count) while some task
    still differs from its solo run.  Returns extra detail for the replay file."""
    from choices import Choices
    F = common.fa()
    ch = Choices(recorded=recorded)
    built = build(ch, F)
    if built is None:
        return {}
    fam, E, tasks = built
    n = len(tasks)
    solo = []
    steps = 0
    for i, lst in enumerate(tasks):
        sc = sched.Scheduler(0, ("uniform",))
        sc.spawn(f"T{i}", _task_fn(F, copy.deepcopy(E), lst))
        solo.append(sc.run()[f"T{i}"][1])
        steps += sc.step
    sc = None
    for si in range(6):
        sseed, strategy, in_fresh, pre = draw_schedule(ch, steps, fam)
        scx, resx = _run_sched(F, E, tasks, sseed, strategy)
        if _diff(solo, resx, n) is not None:
            sc, res = scx, resx
            break
    if sc is None:
        return {"schedule_minimisation": "not reproduced in-process (violation needs the fresh-process schedule mode)"}
    script = list(sc.decisions)
    sc0, res0 = _run_sched(F, E, tasks, 0, ("script", script))
    if _diff(solo, res0, n) is None:
        return {"schedule_minimisation": "script replay did not reproduce; original schedule kept",
                "switches": [{"step": s[0], "from": s[1], "at": s[2], "to": s[3]} for s in sc.switches[:200]]}
    tries = 0

    def still_fails(cand):
        try:
            scx, resx = _run_sched(F, E, tasks, 0, ("script", cand))
        except (sched.Deadlock, sched.StepCap, sched.Stall):
            return None
        if _diff(solo, resx, n) is not None:
            return list(scx.decisions)
        return None

    # delta debugging over the pre-emption list: remove chunks (any length, so that a
    # pre-emption and the switch back can go together), largest first
    chunk = max(1, len(script) // 2)
    while chunk >= 1 and tries < 3000:
        i = 0
        progressed = False
        while i < len(script) and tries < 3000:
            cand = [d for k, d in enumerate(script) if not (i <= k < i + chunk and d[3] == 0)]
            if len(cand) < len(script):
                tries += 1
                r = still_fails(cand)
                if r is not None and sum(1 for d in r if d[3] == 0) < sum(1 for d in script if d[3] == 0):
                    script = r
                    progressed = True
                    continue
            i += 1 if chunk == 1 else max(1, chunk // 2)
        if not progressed or chunk == 1:
            chunk //= 2
    scf, resf = _run_sched(F, E, tasks, 0, ("script", script))
    bad = _diff(solo, resf, n)
    return {"minimised_schedule": {
        "preemptions": sum(1 for d in script if d[3] == 0),
        "script": [list(d) for d in script],
        "switches": [{"step": s[0], "from": f"T{s[1]}", "at": s[2], "to": f"T{s[3]}"} for s in scf.switches],
        "task": bad[0] if bad else None, "solo": bad[2] if bad else None, "under_schedule": bad[3] if bad else None,
        "original_switches": len(sc.switches), "tries": tries}}
