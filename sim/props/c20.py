"""C20 -- generate_one / generate_many always produce data that conforms to the schema.

The library's random source is put behind a seam: fastavro.utils.random is replaced by a
seeded SimRandom which, besides behaving like the real generator, injects *extreme draws*
(range boundaries, all-zero / all-one bits) into value draws -- each a value the real
source can return for that call.  uuid.uuid4 is seeded too.
"""
import io
import json
import random
import sys

import env
import gen
import refavro
from runner import Violation, jsonable
from props import common

ID = "C20"
LEVEL = "exploration"
QUICK_RUNS = 55000
SUBRUNS = 2          # two scenarios per run, one after the other in the same process (see runner.execute)
QUICK_BUDGET_S = 50.0
THOROUGH_RUNS = 10 ** 9
BATCH = 50
RULE = ("one run = one seeded schema (every kind incl. logical types, by-name references, unions of by-name "
        "references, at most one nullable self-reference) x one count n in {0,1,2,<=50} x one seeded state of the "
        "library's random source with up to 16 injected extreme value draws (randint -> a range end, random() -> 0.0 "
        "or the largest double below 1, getrandbits -> all zeros / all ones, choices -> one repeated letter); one "
        "evaluation = one generated value checked (validate, independent conformance predicate, schemaless and "
        "container write, read back). non-trivial = n >= 1; distinct = digest of (schema, n, random seed, injections)")
ASSUMPTIONS = [
    "pure-Python fastavro modules only",
    "each injected draw is a value the real Mersenne Twister can return for that call; injections are confined to value draws (range > 1000), at most 16 per run; small-range draws (union branch, enum index, boolean) are always fair because termination of recursive generation depends on their sequence",
    "recursion is restricted to the sub-critical class (one nullable self-reference); recursion through array/map or several optional self-references never terminates (known finding) and is kept as a fixed finding probe",
    "'can be read back' = reading does not raise",
]
COMPONENTS = {
    "real": ["fastavro.utils.generate_one / generate_many", "fastavro.validation.validate", "fastavro writer / schemaless_writer / readers"],
    "stub": ["SimRandom(random.Random) installed as fastavro.utils.random", "seeded uuid.uuid4"],
    "oracle": ["refavro.conforms (independent conformance predicate)", "fastavro.validate", "writers accept + read back"],
}
PROBES = ["extreme_randint", "extreme_random", "extreme_getrandbits", "extreme_choices", "logical_schema",
          "recursive_schema", "by_name_reference", "n_zero", "n_many", "generate_one", "n_huge", "partial_consumption", "schema_object_edited_in_place"]


def setup():
    env.load()


class SimRandom(random.Random):
    """Seeded stand-in for the `random` module as seen by fastavro.utils."""

    def __init__(self, seed, inject_pct, ctx):
        super().__init__(seed)
        self._ctl = random.Random(seed ^ 0x5A5A5A5A)
        self.inject_pct = inject_pct
        self.left = 16
        self.ctx = ctx
        self.injected = []

    def _inject(self):
        if self.left > 0 and self._ctl.randrange(100) < self.inject_pct:
            self.left -= 1
            return True
        return False

    def randint(self, a, b):
        if b - a > 1000 and self._inject():
            v = a if self._ctl.randrange(2) == 0 else b
            self.injected.append(("randint", a, b, v))
            self.ctx.fault("extreme_draw")
            self.ctx.probe("extreme_randint")
            return v
        return super().randint(a, b)

    def random(self):
        if self._inject():
            v = 0.0 if self._ctl.randrange(2) == 0 else 1.0 - 2.0 ** -53
            self.injected.append(("random", v))
            self.ctx.fault("extreme_draw")
            self.ctx.probe("extreme_random")
            return v
        return super().random()

    def getrandbits(self, k):
        if k >= 8 and self._inject():
            v = 0 if self._ctl.randrange(2) == 0 else (1 << k) - 1
            self.injected.append(("getrandbits", k, "all-ones" if v else 0))   # (the value itself can have thousands of digits)
            self.ctx.fault("extreme_draw")
            self.ctx.probe("extreme_getrandbits")
            return v
        return super().getrandbits(k)

    def choices(self, population, weights=None, *, cum_weights=None, k=1):
        if weights is None and cum_weights is None and self._inject():
            c = population[self._ctl.randrange(len(population))]
            self.injected.append(("choices", c, k))
            self.ctx.fault("extreme_draw")
            self.ctx.probe("extreme_choices")
            return [c] * k
        return super().choices(population, weights, cum_weights=cum_weights, k=k)


def finding_probes():
    F = common.fa()
    out = []
    old = sys.getrecursionlimit()
    schema = {"type": "record", "name": "N", "fields": [{"name": "c", "type": {"type": "array", "items": "N"}}]}
    rep = False
    try:
        random.seed(1)
        F.utils.generate_one(schema)
    except RecursionError:
        rep = True
    except Exception:  # noqa
        rep = True
    out.append(("generate:RecursionError:recursive-through-collection", rep,
                "generate_one on a record that reaches itself through array items never terminates"))
    schema3 = {"type": "record", "name": "N", "fields": [{"name": f"f{i}", "type": ["null", "N"]} for i in range(3)]}
    fails = 0
    for sd in range(20):
        try:
            random.seed(sd)
            F.utils.generate_one(schema3)
        except RecursionError:
            fails += 1
    # regression probe for a repaired defect (not listed as known: if it comes back it is a violation)
    nul = {"type": "record", "name": "R0", "fields": [{"name": "f0", "type": [
        "long", {"type": "record", "name": "R1", "fields": [{"name": "f0", "type": "null"}, {"name": "f1", "type": {"type": "null"}}]},
        {"type": "record", "name": "R2", "fields": []}]}]}
    rep = False
    try:
        F.schemaless_writer(io.BytesIO(), nul, {"f0": {}})
    except Exception:  # noqa
        rep = True
    out.append(("writers:absent-field-of-dict-form-null-type-rejected", rep,
                "an empty dict under [long, R1{f0: null, f1: {'type': 'null'}}, R2{}] must be writable"))
    amb = {"type": "record", "name": "R0", "fields": [{"name": "f0", "type": [
        {"type": "record", "name": "R2", "fields": [{"name": "f0", "type": {"type": "long", "logicalType": "timestamp-millis"}}]},
        {"type": "map", "values": {"type": "long", "logicalType": "time-micros"}}]}]}
    bad = 0
    for sd in range(40):
        random.seed(sd)
        v = F.utils.generate_one(amb)
        fo = io.BytesIO()
        try:
            F.schemaless_writer(fo, amb, v)
            fo.seek(0)
            F.schemaless_reader(fo, amb)
        except Exception:  # noqa
            bad += 1
    out.append((AMBIG_SIG, bad > 0,
                "a dict generated for a record branch is written under a later map branch whose logical type cannot read the number back"))
    out.append(("generate:RecursionError:three-optional-self-references", fails > 0,
                "generate_one on a record with three ['null', N] fields overflows the stack for most random states"))
    return out


def _has_logical(n, depth=0, seen=()):
    n = refavro.deref(n)
    if n.logical:
        return True
    if depth > 6:
        return False
    if n.k == "array":
        return _has_logical(n.items, depth + 1, seen)
    if n.k == "map":
        return _has_logical(n.values, depth + 1, seen)
    if n.k == "union":
        return any(_has_logical(b, depth + 1, seen) for b in n.branches)
    if n.k == "record":
        if n.name in seen:
            return False
        return any(_has_logical(f.type, depth + 1, seen + (n.name,)) for f in n.fields)
    return False


def ambiguous_logical(n, v, depth=0):
    """Is there a union on the path of value v at which v conforms to two or more branches,
    at least one of which carries a logical type?  (The generated value belongs to ONE
    branch; the writer may legitimately pick another one it also conforms to, and that
    branch's logical type may not accept the raw number on read: known finding.)"""
    n = refavro.deref(n)
    if depth > 400:
        return False   # (the walk follows the finite value, this only guards against a harness bug)
    if n.k == "union":
        conf = [b for b in n.branches if refavro.conforms(b, v)]
        if len(conf) >= 2 and any(_has_logical(b) for b in conf):
            return True
        return any(ambiguous_logical(b, v, depth + 1) for b in conf)
    if n.k == "record" and isinstance(v, dict):
        return any(ambiguous_logical(f.type, v[f.name], depth + 1) for f in n.fields if f.name in v)
    if n.k == "array" and isinstance(v, (list, tuple)):
        return any(ambiguous_logical(n.items, x, depth + 1) for x in v)
    if n.k == "map" and isinstance(v, dict):
        return any(ambiguous_logical(n.values, x, depth + 1) for x in v.values())
    return False


AMBIG_SIG = "generate:union-branch-ambiguity-with-logical-type"


def _alter_named(s):
    """Same type names, different definitions (other enum symbols, other fixed sizes): what a
    generator sharing its named-type table with another call would pick up."""
    if isinstance(s, list):
        return [_alter_named(x) for x in s]
    if isinstance(s, dict):
        out = {k: v for k, v in s.items()}
        t = s.get("type")
        if t == "enum":
            out["symbols"] = ["ZZ_" + x for x in s["symbols"]]
            out.pop("default", None)
        elif t == "fixed" and "logicalType" not in s:
            out["size"] = s["size"] + 3
        elif t == "record":
            out["fields"] = [dict(f, type=_alter_named(f["type"])) for f in s.get("fields", [])]
            for f in out["fields"]:
                f.pop("default", None)
        elif t == "array":
            out["items"] = _alter_named(s["items"])
        elif t == "map":
            out["values"] = _alter_named(s["values"])
        elif isinstance(t, (dict, list)):
            out["type"] = _alter_named(t)
        return out
    return s


def run_one(ch, ctx):
    F = common.fa()
    schema, gstats = gen.schema(ch, max_depth=2, max_fields=4, logical=True, recursion="nullable-once",
                                defaults=False)
    node = refavro.resolve(schema)
    if gstats.get("logical"):
        ctx.probe("logical_schema")
    if gstats.get("recursive"):
        ctx.probe("recursive_schema")
    if gstats.get("refs"):
        ctx.probe("by_name_reference")
    mode = ch.weighted([2, 1, 2, 2, 3])
    n = [None, 0, 1, 2, 3 + ch.draw(48)][mode]
    if mode == 4 and gstats.get("named", 0) > 4:
        n = min(n, 8)
    if mode == 4 and ch.draw(100) == 99 and gstats.get("named", 0) <= 4 and not gstats.get("recursive") \
            and not gstats.get("wide_union") and not gstats.get("large_fixed"):
        n = ch.pick([1001, 2500, 10000])   # long generator runs: per-call budgets, tables filling up
        ctx.probe("n_huge")
    if mode == 2 and ch.chance(20):
        n = True   # a bool is an int: exactly one value
    rseed = ch.draw(1 << 30)
    sim = SimRandom(rseed, ch.pick([0, 5, 20, 60]), ctx)
    random.seed(rseed)   # should the library ever bypass the module attribute, runs stay repeatable
    for _nm, _obj in list(vars(F.utils).items()):
        if isinstance(_obj, random.Random) and _obj is not sim:
            _obj.seed(rseed)   # a private generator instance of the library: same treatment
    env.seed_entropy(rseed)
    parsed = ch.chance(50)
    S = F.parse_schema(json.loads(json.dumps(schema))) if parsed else schema
    desc = {"schema": schema, "n": n, "random_seed": rseed, "parsed": parsed}
    saved = F.utils.random
    F.utils.random = sim
    try:
        if (not parsed and isinstance(schema, dict) and schema.get("type") == "record" and len(schema.get("fields", [])) >= 2
                and ch.chance(15)):
            # the caller's schema object had an older shape (without its last field) when it was first
            # used for generation, and was then completed in place: values must follow the schema as it is now
            ctx.probe("schema_object_edited_in_place")
            S = json.loads(json.dumps(schema))
            last = S["fields"].pop()
            try:
                F.utils.generate_one(S) if ch.draw(2) else list(F.utils.generate_many(S, 1))
            except Exception:  # noqa -- the older shape may not be a valid schema (dangling reference)
                pass
            S["fields"].append(last)
            desc["edited_in_place"] = True
        try:
            if n is None:
                ctx.probe("generate_one")
                values = [F.utils.generate_one(S)]
                want = 1
            else:
                g = F.utils.generate_many(S, n)
                if ch.chance(20) and n not in (0, None) and n is not True and n > 1:
                    # lazy, interleaved consumption: one value now, the rest later
                    ctx.probe("partial_consumption")
                    values = [next(g)]
                    # while the generator is suspended, generate from a schema that reuses the
                    # same type names with other definitions
                    try:
                        F.utils.generate_one(_alter_named(schema))
                    except RecursionError:
                        pass
                    values.extend(g)
                else:
                    values = list(g)
                want = int(n)
        except RecursionError as e:
            raise Violation("generate", "RecursionError", detail={"injected": jsonable(sim.injected)},
                            sig="generate:RecursionError:sub-critical-schema", scenario=desc)
        except Exception as e:  # noqa
            raise Violation("generate", "raises", detail={"exc": jsonable(e), "injected": jsonable(sim.injected)}, scenario=desc)
    finally:
        F.utils.random = saved
    desc["injected"] = jsonable(sim.injected)
    if n == 0:
        ctx.probe("n_zero")
    if n is not None and n is not True and n > 2:
        ctx.probe("n_many")
    if len(values) != want:
        raise Violation("count", "wrong-number-of-values", detail={"got": len(values), "want": want}, scenario=desc)
    for i, v in enumerate(values):
        ctx.evals += 1
        try:
            ok = F.validate(v, S)
        except Exception as e:  # noqa
            raise Violation("conforms", "validate-rejects", detail={"index": i, "value": jsonable(v), "exc": jsonable(e)}, scenario=desc)
        if ok is not True:
            raise Violation("conforms", "validate-false", detail={"index": i, "value": jsonable(v)}, scenario=desc)
        if not refavro.conforms(node, v):
            raise Violation("conforms", "independent-predicate-rejects", detail={"index": i, "value": jsonable(v)}, scenario=desc)
        if i >= 60:
            continue   # very large n: the per-value binary round trip is sampled, the container below takes all
        fo = io.BytesIO()
        try:
            F.schemaless_writer(fo, S, v)
        except Exception as e:  # noqa
            raise Violation("writers", "schemaless-writer-rejects", detail={"index": i, "value": jsonable(v), "exc": jsonable(e)}, scenario=desc)
        fo.seek(0)
        try:
            F.schemaless_reader(fo, S)
        except Exception as e:  # noqa
            sig = AMBIG_SIG if isinstance(e, (ValueError, OverflowError)) and ambiguous_logical(node, v) else None
            raise Violation("readback", "schemaless-read-raises", detail={"index": i, "value": jsonable(v), "exc": jsonable(e)}, sig=sig, scenario=desc)
        if fo.read(1) != b"":
            raise Violation("readback", "bytes-left", detail={"index": i}, scenario=desc)
    fo = io.BytesIO()
    try:
        F.writer(fo, S, values, sync_marker=b"\x03" * 16, codec=ch.pick(["null", "deflate"]))
    except Exception as e:  # noqa
        raise Violation("writers", "container-writer-rejects", detail={"exc": jsonable(e), "values": jsonable(values[:3])}, scenario=desc)
    fo.seek(0)
    try:
        back = list(F.reader(fo))
    except Exception as e:  # noqa
        sig = AMBIG_SIG if isinstance(e, (ValueError, OverflowError)) and any(ambiguous_logical(node, v) for v in values) else None
        raise Violation("readback", "container-read-raises", detail={"exc": jsonable(e), "values": jsonable(values[:3])}, sig=sig, scenario=desc)
    if len(back) != len(values):
        raise Violation("readback", "container-count-differs", detail={"read": len(back), "written": len(values)}, scenario=desc)
    ctx.steps += max(1, len(values))
    # the generated values themselves are not part of the determinism digest: which values come out is
    # the library's freedom (it may even use entropy the seam does not control); inputs and verdict are
    ctx.ev("gen", len(values), sim.injected)
    ctx.sample = dict(desc, first_value=jsonable(values[0]) if values else None)
    if values:
        ctx.key(json.dumps(schema, sort_keys=True), n, rseed, json.dumps(jsonable(sim.injected), default=str))
