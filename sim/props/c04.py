"""C04 -- container files are self-describing and round-trip under every codec, block
size and stream kind.

fastavro writer -> storage -> fastavro reader with every knob drawn per run (swarm):
schema kind, record list shape, codec, sync_interval (incl. threshold values derived from
the encoded sizes), compression level, sync marker, metadata, raw/parsed schema and the
stream pair: BytesIO, real temp file, write-only sink -> read-only sequential input, or a
simulated pipe with a writer task and a reader task under a seeded schedule.
"""
import io
import json
import os
import shutil
import tempfile

import env
import gen
import refavro
import sched
from streams import SimPipe, ReadOnlySeq, WriteOnlySink, CountingSink, buffered_seq
from runner import Violation, jsonable
from props import common

ID = "C04"
LEVEL = "exploration"
QUICK_RUNS = 9000
SUBRUNS = 2          # two scenarios per run, one after the other in the same process (see runner.execute)
QUICK_BUDGET_S = 50.0
THOROUGH_RUNS = 10 ** 9
BATCH = 100
RULE = ("one run = one seeded container scenario (schema of any top-level kind, 0..12 records incl. zero-byte "
        "and interval-filling ones, codec, sync_interval from 1 to beyond the file incl. size-1/size/size+1 "
        "thresholds, level, marker, metadata, raw/parsed) written and read through one drawn stream pair "
        "(BytesIO | real file | write-only sink -> read-only input | SimPipe writer task + reader task under "
        "a seeded schedule), then rewritten under a second sync_interval (grouping independence). one "
        "evaluation = one file written and read back. non-trivial = at least one record; distinct = digest of "
        "(scenario, stream pair, interleaving signature)")
ASSUMPTIONS = [
    "pure-Python fastavro modules only; codecs null, deflate, bzip2, xz (snappy / zstandard / lz4 are not importable here)",
    "pipe semantics = buffered reader over a pipe (read(n) blocks until n bytes or EOF)",
    "block boundaries, sizes of individual read calls and number of write calls are deliberately not asserted",
    "records are seeded samples; equality after the documented normalisation (refavro.normal_eq)",
]
COMPONENTS = {
    "real": ["fastavro._write_py.writer", "fastavro._read_py.reader", "zlib/bz2/lzma", "io.BytesIO", "real temp files", "threading.Thread"],
    "stub": ["WriteOnlySink", "ReadOnlySeq", "SimPipe", "scheduler"],
    "oracle": ["submitted records via refavro.normal_eq", "call log of the simulated streams"],
}
PROBES = ["output_counting_nonseekable", "input_buffered_reader", "pair_bytesio", "pair_realfile", "pair_sink_seq", "pair_pipe", "codec_null", "codec_deflate",
          "codec_bzip2", "codec_xz", "empty_file", "interval_1", "record_eq_interval", "record_gt_interval",
          "zero_byte_block", "parsed_schema", "metadata_given", "marker_default", "recode_with_first_files_metadata",
          "profile_many_records", "profile_huge_record"]


def setup():
    env.load()
    sched.instrument(env.REPO)


def _verify(F, sc, rd_meta, records_read, desc, info):
    if len(records_read) != len(sc.records):
        raise Violation("roundtrip", "count-differs", detail=dict(info, n_read=len(records_read), n_written=len(sc.records)), scenario=desc)
    for i, (d, r) in enumerate(zip(sc.records, records_read)):
        if not refavro.normal_eq(sc.node, d, r):
            raise Violation("roundtrip", "record-differs", detail=dict(info, index=i, written=jsonable(d), read=jsonable(r)), scenario=desc)
    cf_read = rd_meta["canonical"]
    cf_given = F.schema.to_parsing_canonical_form(json.loads(json.dumps(sc.schema)))
    if cf_read != cf_given:
        raise Violation("self-describing", "schema-canonical-form-differs", detail=dict(info, read=cf_read, given=cf_given), scenario=desc)
    if rd_meta["codec"] != sc.codec:
        raise Violation("self-describing", "codec-differs", detail=dict(info, read=rd_meta["codec"]), scenario=desc)
    for k, v in (sc.metadata or {}).items():
        if k.startswith("avro."):
            continue   # reserved keys describe the file, not what the caller happened to pass
        if rd_meta["metadata"].get(k) != v:
            raise Violation("self-describing", "metadata-differs", detail=dict(info, key=k, read=rd_meta["metadata"].get(k), given=v), scenario=desc)


def _read(F, fo):
    r = F.reader(fo)
    recs = list(r)
    # schema / codec / metadata are asked for after the iteration: a reader that parses its header
    # lazily is within the property
    meta = {"canonical": F.schema.to_parsing_canonical_form(r.writer_schema), "codec": r.codec,
            "metadata": dict(r.metadata)}
    return meta, recs


# The first few files a worker process writes are kept and read again in every later run of the same
# process (each batch of runs has its own freshly forked process): whatever fills up, wraps around or is
# re-used after hundreds of other schemas must not change how an earlier file reads.  Such a violation
# depends on the runs before it, so its replay file is the run-index range of the batch.
_CANARIES = []


def _check_canaries(F, ctx):
    for c in _CANARIES:
        c["age"] += 1
        if c["age"] % 4 and c["age"] < 64:
            continue
        try:
            meta, recs = _read(F, io.BytesIO(c["data"]))
        except Exception as e:  # noqa
            raise Violation("history", "earlier-file-no-longer-readable", detail={"file_of_run_age": c["age"], "exc": jsonable(e)}, scenario=c["desc"])
        ctx.stat("canary_rereads")
        if meta["canonical"] != c["canonical"] or len(recs) != len(c["recs"]) or not all(refavro.value_eq(a, b) for a, b in zip(recs, c["recs"])):
            raise Violation("history", "earlier-file-reads-differently-later",
                            detail={"runs_since_written": c["age"], "first": jsonable(c["recs"][:2]), "now": jsonable(recs[:2]),
                                    "canonical_first": c["canonical"], "canonical_now": meta["canonical"]}, scenario=c["desc"])


def run_one(ch, ctx):
    F = common.fa()
    _check_canaries(F, ctx)
    sc = common.container_scenario(ch, max_records=12, hints=True, big=ch.chance(10), size_profiles=True)
    sizes = common.encoded_sizes(sc) if sc.profile == "small" else [8]
    sc.sync_interval = common.draw_sync_interval(ch, sizes, sc)
    if sc.profile != "small":
        ctx.probe("profile_" + sc.profile)
    ctx.probe("codec_" + sc.codec)
    if not sc.records:
        ctx.probe("empty_file")
    if sc.sync_interval == 1:
        ctx.probe("interval_1")
    if sizes and sizes[0] == sc.sync_interval:
        ctx.probe("record_eq_interval")
    if sizes and sizes[0] > sc.sync_interval:
        ctx.probe("record_gt_interval")
    if sizes and max(sizes) == 0:
        ctx.probe("zero_byte_block")
    if sc.parsed:
        ctx.probe("parsed_schema")
    if sc.metadata:
        ctx.probe("metadata_given")
    if not sc.sync_marker:
        ctx.probe("marker_default")
        env.seed_entropy(ch.fork("entropy"))
    desc = sc.describe()
    pair = ch.weighted([3, 1, 3, 3])
    sig = ""
    if pair == 0:
        ctx.probe("pair_bytesio")
        info = {"pair": "bytesio"}
        fo = io.BytesIO()
        _write(F, sc, fo, desc, info)
        data = fo.getvalue()
        fo.seek(0)
        meta, recs = _guard_read(F, fo, desc, info)
    elif pair == 1:
        ctx.probe("pair_realfile")
        info = {"pair": "realfile"}
        tmp = tempfile.mkdtemp(prefix="verif-c04-")
        try:
            path = os.path.join(tmp, "f.avro")
            with open(path, "wb") as fo:
                _write(F, sc, fo, desc, info)
            with open(path, "rb") as fo:
                meta, recs = _guard_read(F, fo, desc, info)
            with open(path, "rb") as fo:
                data = fo.read()
        finally:
            shutil.rmtree(tmp, ignore_errors=True)
    elif pair == 2:
        ctx.probe("pair_sink_seq")
        info = {"pair": "sink->seq"}
        counting = ch.chance(25)
        if counting:
            # a non-seekable output that can tell its (already non-zero) position: still a NEW file
            ctx.probe("output_counting_nonseekable")
            info["output"] = "non-seekable, tell() works and is non-zero (preamble already sent)"
            sink = CountingSink()
        else:
            sink = WriteOnlySink()
        _write(F, sc, sink, desc, info)
        if set(sink.ops()) - {"write", "flush", "seekable", "tell"}:
            raise Violation("stream-calls", "writer-used-other-calls", detail=dict(info, ops=sink.ops(), forbidden=sink.forbidden), scenario=desc)
        data = sink.getvalue()
        if sink.flushed != len(data):
            # a buffering pipe / socket object would still hold these bytes when writer() returns
            raise Violation("stream-calls", "output-not-flushed-on-return", detail=dict(info, written=len(data), flushed=sink.flushed), scenario=desc)
        if counting:
            data = data[sink.preamble:]
        if ch.chance(30):
            # a real io.BufferedReader with a tiny buffer (open(path, "rb") with the boundary every few bytes)
            bufsize = ch.pick([1, 2, 3, 5, 8, 13, 64, 1000])
            ctx.probe("input_buffered_reader")
            info["input"] = "io.BufferedReader(buffer_size=%d)" % bufsize
            src = buffered_seq(data, bufsize)
            meta, recs = _guard_read(F, src, desc, info)
            left = len(data) - src.tell()
        else:
            src = ReadOnlySeq(data)
            meta, recs = _guard_read(F, src, desc, info)
            if set(src.ops()) - {"read"}:
                raise Violation("stream-calls", "reader-used-other-calls", detail=dict(info, ops=src.ops(), forbidden=src.forbidden), scenario=desc)
            left = src.remaining
        if left:
            raise Violation("roundtrip", "bytes-left-unread", detail=dict(info, left=left), scenario=desc)
    else:
        ctx.probe("pair_pipe")
        cap = ch.pick([1, 3, 16, 64, 4096, None])
        if cap in (1, 3) and sum(sizes) > 600:
            cap = 64
        if sc.profile != "small":
            cap = ch.pick([4096, 65536, None])   # byte-wise hand-over of 100 KiB would take minutes
        monitor = ch.chance(30) and sc.profile == "small"
        strategy = ("uniform",) if ch.draw(2) else ("sticky", ch.pick([500, 900]))
        info = {"pair": "pipe", "capacity": cap, "monitor": monitor, "strategy": list(strategy)}
        s = sched.Scheduler(ch.fork("sched"), strategy, max_steps=3_000_000, monitor=monitor)
        pipe = SimPipe(s, cap)
        unflushed = []

        def wtask():
            try:
                common.fa_write(sc, pipe.w)
                unflushed.append(pipe.w.unflushed)
            finally:
                pipe.w.close()
            return "done"

        def rtask():
            return _read(F, pipe.r)

        s.spawn("writer", wtask)
        s.spawn("reader", rtask)
        try:
            res = s.run()
        except sched.Deadlock as e:
            raise Violation("liveness", "deadlock", detail=dict(info, what=str(e), written=pipe.total_written, read=pipe.total_read), scenario=desc)
        except (sched.StepCap, sched.Stall) as e:
            raise Violation("liveness", type(e).__name__, detail=dict(info, what=str(e)), scenario=desc)
        if res["writer"][0] != "ok":
            raise Violation("roundtrip", "writer-raises", detail=dict(info, exc=jsonable(res["writer"][1])), scenario=desc)
        if res["reader"][0] != "ok":
            raise Violation("roundtrip", "reader-raises", detail=dict(info, exc=jsonable(res["reader"][1])), scenario=desc)
        meta, recs = res["reader"][1]
        if unflushed and unflushed[0]:
            raise Violation("stream-calls", "output-not-flushed-on-return", detail=dict(info, unflushed=unflushed[0]), scenario=desc)
        if pipe.buf:
            raise Violation("roundtrip", "bytes-left-unread", detail=dict(info, left=len(pipe.buf)), scenario=desc)
        if set(pipe.r.ops()) - {"read"}:
            raise Violation("stream-calls", "reader-used-other-calls", detail=dict(info, ops=pipe.r.ops(), forbidden=pipe.r.forbidden), scenario=desc)
        if set(pipe.w.ops()) - {"write", "flush", "seekable", "close"}:
            raise Violation("stream-calls", "writer-used-other-calls", detail=dict(info, ops=pipe.w.ops(), forbidden=pipe.w.forbidden), scenario=desc)
        ctx.steps += s.step
        ctx.fault("preempt", len(s.switches))
        sig = s.signature()
        data = None
    _verify(F, sc, meta, recs, desc, info)
    ctx.evals += 1
    if len(_CANARIES) < 3 and data is not None and 0 < len(data) < 8192 and recs:
        _CANARIES.append({"data": data, "recs": recs, "canonical": meta["canonical"], "desc": desc, "age": 0})
    # grouping independence: same records under a second sync_interval read back identically
    si2 = common.draw_sync_interval(ch, sizes)   # (second grouping: always a freshly drawn interval)
    old = sc.sync_interval
    sc.sync_interval = si2
    fo2 = io.BytesIO()
    info2 = {"pair": "bytesio", "second_interval": si2, "first_interval": old}
    old_codec, old_meta, old_level = sc.codec, sc.metadata, sc.level
    if ch.chance(30):
        sc.level = None   # the level was drawn for the first codec and may not exist for the second
        # re-encode: another codec, metadata taken over from the first file as read back (it
        # contains the first file's avro.codec / avro.schema entries): the codec ARGUMENT must win
        sc.codec = ch.pick([c for c in common.CODECS if c != old_codec])
        sc.metadata = dict(meta["metadata"])
        info2["recode"] = {"from": old_codec, "to": sc.codec}
        ctx.probe("recode_with_first_files_metadata")
    _write(F, sc, fo2, desc, info2)
    fo2.seek(0)
    meta2, recs2 = _guard_read(F, fo2, desc, info2)
    if meta2["codec"] != sc.codec:
        raise Violation("self-describing", "codec-differs", detail=dict(info2, read=meta2["codec"], supplied=sc.codec), scenario=desc)
    sc.sync_interval = old
    sc.codec, sc.metadata, sc.level = old_codec, old_meta, old_level
    if len(recs2) != len(recs) or not all(refavro.value_eq(a, b) for a, b in zip(recs, recs2)):
        raise Violation("grouping", "records-depend-on-block-grouping", detail=dict(info2, n1=len(recs), n2=len(recs2)), scenario=desc)
    ctx.evals += 1
    ctx.steps += 2
    ctx.ev_sched("c04", sig)
    ctx.ev("c04", info["pair"], len(recs), json.dumps(jsonable(recs), sort_keys=True, default=str)[:2000])
    ctx.sample = dict(desc, **info)
    if sc.records:
        ctx.key(json.dumps(desc, sort_keys=True, default=str), info["pair"], sig)


def _write(F, sc, fo, desc, info):
    try:
        common.fa_write(sc, fo)
    except Exception as e:  # noqa
        raise Violation("roundtrip", "writer-raises", detail=dict(info, exc=jsonable(e)), scenario=desc)


def _guard_read(F, fo, desc, info):
    try:
        return _read(F, fo)
    except Exception as e:  # noqa
        raise Violation("roundtrip", "reader-raises", detail=dict(info, exc=jsonable(e)), scenario=desc)
