"""C03 -- the schemaless decoder accepts every spec-valid layout from a foreign writer and
rejects out-of-range union/enum indices and short input.

The peer is refavro's encoder acting as a foreign writer whose legal freedom (block
partition of every array/map, positive- or negative-count form) is drawn per run.  Faults
are stored-byte faults on the simulated read-only input: cut(k) for every k, and
bad_index(pos, v) at every union / enum index position for eight out-of-range values.
"""
import hashlib
import io

import env
import gen
import refavro
from streams import ReadOnlySeq, buffered_seq
from runner import Violation, jsonable
from props import common

ID = "C03"
LEVEL = "fault_enumeration"
QUICK_RUNS = 2500
QUICK_BUDGET_S = 50.0
THOROUGH_RUNS = 10 ** 9
BATCH = 20
RULE = ("one run = one seeded (schema, value) encoded by the independent foreign writer under a drawn "
        "block layout (any partition of each array/map, each block in positive- or negative-count+"
        "byte-size form); evaluations = decode attempts: fault-free read and skip, cut(k) for EVERY k "
        "(encodings > 2 KiB quick / 6 KiB thorough: first 512 B, last 256 B and a stride) in both modes, "
        "bad_index at EVERY union/enum index site (more than 48 quick / 192 thorough sites: first, last and a seeded sample) x 12 out-of-range values (8 fixed + 4 seeded of the form 2^k + valid index) (union: read "
        "and skip mode; enum: read mode). non-trivial = the encoding is non-empty; distinct = faults "
        "counted over distinct (schema, encoding) digests")
ASSUMPTIONS = [
    "pure-Python fastavro modules only",
    "the foreign writer emits only minimal-length varints, valid UTF-8, booleans 0/1, maps without duplicate keys (the property's quantifier lists block layouts, not other encoder liberties)",
    "'raises' = any exception class; nothing asserted about where the error is noticed",
    "a skipped enum value is not required to be range-checked",
    "(schema, value) pairs are seeded samples; enumeration is complete per encoding",
]
COMPONENTS = {
    "real": ["fastavro._read_py.schemaless_reader (read_data / skip_data)", "fastavro.io.binary_decoder", "fastavro._schema_py.parse_schema"],
    "stub": ["ReadOnlySeq (read only) holding the faulted bytes"],
    "oracle": ["refavro.encode (foreign writer with index-site map)", "refavro.decode", "refavro.value_eq"],
}
PROBES = ["input_buffered_reader", "route_lenient_unicode", "route_return_names_under_faults", "negative_count_block", "ge3_blocks", "empty_collection", "index_depth_ge2",
          "union_site", "enum_site", "skip_mode_index", "bad_index_negative", "bad_index_high",
          "skip_last_seekable", "skip_last_sequential", "large_payload_leaf"]
SENTINEL = 0x5EED5EED


def setup():
    env.load()


def _bad_values(n, ch=None):
    vals = [-1, -n, -n - 1, -(1 << 63), n, n + 1, 1 << 31, (1 << 63) - 1]
    if ch is not None:
        # values that alias to a VALID index if the varint is truncated / wrapped at some width:
        # 2^k + j for an in-range j, k on and between the byte boundaries of the varint
        for _ in range(3):
            k = ch.pick([7, 8, 14, 16, 21, 28, 31, 32, 34, 35, 40, 42, 49, 53, 56, 62])
            vals.append((1 << k) + ch.draw(n))
        vals.append(-((1 << ch.pick([32, 34, 40, 62])) + ch.draw(n)) - 1)
    return [v for v in vals if not 0 <= v < n]


def _cuts(ch, L, tier):
    """Every proper prefix; for encodings dominated by long payloads (> 2 KiB quick,
    > 6 KiB thorough) the first 512 B, the last 256 bytes and a seeded stride."""
    lim = 2048 if tier == "quick" else 6144
    if L <= lim:
        return range(L)
    ks = set(range(512)) | set(range(L - 256, L))
    stride = max(1, L // 250)
    ks.update(range(ch.draw(stride), L, stride))
    return sorted(ks)


def run_one(ch, ctx):
    F = common.fa()
    if ch.chance(7):
        # swarm: payload-size profile -- one string / bytes / fixed leaf larger than any I/O buffer
        # (8 KiB), placed last so that nothing after it would notice a sloppy skip
        n = ch.pick([8193, 9000, 20000, 65536, 65537, 70000])   # also beyond 64 KiB (chunked reads)
        form = ch.draw(7)
        big_s = ch.pick(["a", "é"]) * n
        big_b = bytes([ch.draw(256)]) * n
        schema, d = [
            ("string", big_s),
            ("bytes", big_b),
            ({"type": "fixed", "name": "Big", "size": n}, big_b),
            ({"type": "record", "name": "RB", "fields": [{"name": "a", "type": "int"}, {"name": "s", "type": "string"}]}, {"a": 7, "s": big_s}),
            (["null", "bytes"], big_b),
            ({"type": "array", "items": "string"}, ["x", big_s]),
            ({"type": "map", "values": "bytes"}, {"k": big_b}),
        ][form]
        node = refavro.resolve(schema)
        dg = gen.DataGen(ch, hints=False, tuples=False)
        ctx.probe("large_payload_leaf")
    else:
        schema, gstats = gen.schema(ch, max_depth=3, max_fields=4)
        node = refavro.resolve(schema)
        dg = gen.DataGen(ch, hints=False, tuples=False, max_len=4, omit_defaults=False, long_strings=(63, 64, 65, 200))
        d = dg.datum(node)
    wrap_schema = {"type": "record", "name": "Wrap", "fields": [{"name": "x", "type": schema},
                                                                   {"name": "tail", "type": "long"}]}
    reader_schema = {"type": "record", "name": "Wrap", "fields": [{"name": "tail", "type": "long"}]}
    wnode = refavro.resolve(wrap_schema)
    # second skip form: the skipped value is the LAST thing in the encoding (nothing after it
    # would notice a skip that ran past the end), read through a seekable stream
    last_schema = {"type": "record", "name": "WrapL", "fields": [{"name": "head", "type": "long"}, {"name": "x", "type": schema}]}
    last_reader = {"type": "record", "name": "WrapL", "fields": [{"name": "head", "type": "long"}]}
    lnode = refavro.resolve(last_schema)
    # the same layout decisions for both encodings are not required; draw independently
    lay = refavro.Layout(ch)
    enc, sites = refavro.encode(node, d, lay)
    lay2 = refavro.Layout(ch)
    wenc, wsites = refavro.encode(wnode, {"x": d, "tail": SENTINEL}, lay2)
    expected, used = refavro.decode(node, enc)
    assert used == len(enc)
    if lay.stats["neg_blocks"] or lay2.stats["neg_blocks"]:
        ctx.probe("negative_count_block")
    if max(lay.stats["max_blocks"], lay2.stats["max_blocks"]) >= 3:
        ctx.probe("ge3_blocks")
    if dg.probes.get("collection_empty"):
        ctx.probe("empty_collection")
    parsed = ch.chance(50)
    S = F.parse_schema(schema) if parsed else schema
    WS = F.parse_schema(wrap_schema) if parsed else wrap_schema
    # the fault enumerations below always use the parsed objects (re-parsing a raw schema
    # for each of hundreds of faulted decodes only costs time); raw schemas are exercised
    # in the fault-free configuration
    PS = S if parsed else F.parse_schema(schema)
    PWS = WS if parsed else F.parse_schema(wrap_schema)
    PRS = F.parse_schema(reader_schema)
    desc = {"schema": schema, "value": jsonable(d), "encoding": enc.hex()[:600], "len": len(enc),
            "layout": lay.stats, "parsed": parsed}
    ctx.sample = desc
    ctx.ev("enc", enc.hex(), wenc.hex())
    n_eval = 0
    # less common routes: reader options.  Lenient unicode handling changes nothing for the valid UTF-8
    # the independent encoder produces; where only "raises or not" is observed (cuts, forged indices)
    # the options that change the shape of returned values may be switched on as well
    ropts = {}
    if ch.chance(30):
        ropts = {"handle_unicode_errors": ch.pick(["replace", "ignore"])}
        ctx.probe("route_lenient_unicode")
    fopts = dict(ropts)
    if ch.chance(25):
        fopts.update(ch.pick([{"return_record_name": True}, {"return_named_type": True},
                              {"return_record_name": True, "return_record_name_override": True},
                              {"return_named_type": True, "return_named_type_override": True}]))
        ctx.probe("route_return_names_under_faults")
    desc["reader_options"] = {"fault_free": ropts, "faulted": fopts}
    # input stream of the cut enumerations: the read-only stub, or a real io.BufferedReader with a tiny buffer
    bufsize = ch.pick([1, 2, 3, 5, 8, 13, 64]) if ch.chance(25) else None
    if bufsize:
        ctx.probe("input_buffered_reader")
        desc["input"] = "io.BufferedReader(buffer_size=%d)" % bufsize
    mkseq = (lambda data, cut=None: buffered_seq(data, bufsize, cut=cut)) if bufsize else (lambda data, cut=None: ReadOnlySeq(data, cut=cut))

    # ---- fault-free -------------------------------------------------------------------
    fo = ReadOnlySeq(enc)
    try:
        v = F.schemaless_reader(fo, S, **ropts)
    except Exception as e:  # noqa
        raise Violation("fault-free", "valid-encoding-rejected", detail={"exc": jsonable(e)}, scenario=desc)
    n_eval += 1
    if not refavro.value_eq(v, expected):
        raise Violation("fault-free", "value-differs-from-independent-decoder",
                        detail={"got": jsonable(v), "expected": jsonable(expected)}, scenario=desc)
    if fo.remaining != 0:
        raise Violation("fault-free", "bytes-not-consumed-exactly", detail={"remaining": fo.remaining, "forbidden": fo.forbidden}, scenario=desc)
    if bufsize:
        bfo = buffered_seq(enc, bufsize)
        try:
            v = F.schemaless_reader(bfo, S, **ropts)
        except Exception as e:  # noqa
            raise Violation("fault-free", "valid-encoding-rejected", detail={"exc": jsonable(e), "input": desc["input"]}, scenario=desc)
        n_eval += 1
        if not refavro.value_eq(v, expected) or bfo.tell() != len(enc):
            raise Violation("fault-free", "value-differs-from-independent-decoder",
                            detail={"got": jsonable(v), "expected": jsonable(expected), "consumed": bfo.tell(), "input": desc["input"]}, scenario=desc)
    fo = ReadOnlySeq(wenc)
    try:
        v = F.schemaless_reader(fo, WS, reader_schema, **ropts)
    except Exception as e:  # noqa
        raise Violation("fault-free", "skip-valid-encoding-rejected", detail={"exc": jsonable(e), "wrapped_encoding": wenc.hex()[:600]}, scenario=desc)
    n_eval += 1
    if v != {"tail": SENTINEL} or fo.remaining != 0:
        raise Violation("fault-free", "skip-consumed-wrong-bytes", detail={"got": jsonable(v), "remaining": fo.remaining, "wrapped_encoding": wenc.hex()[:600]}, scenario=desc)

    # ---- cut(k): every proper prefix, both modes -----------------------------------------
    for k in _cuts(ch, len(enc), ctx.tier):
        try:
            v = F.schemaless_reader(mkseq(enc, k), PS, **fopts)
        except Exception as e:  # noqa
            ctx.stat("exc_" + type(e).__name__)
            n_eval += 1
            ctx.fault("cut")
            continue
        raise Violation("cut", "prefix-decoded", detail={"mode": "read", "cut": k, "returned": jsonable(v)}, scenario=desc)
    for k in _cuts(ch, len(wenc), ctx.tier):
        try:
            v = F.schemaless_reader(mkseq(wenc, k), PWS, PRS, **fopts)
        except Exception as e:  # noqa
            n_eval += 1
            ctx.fault("cut_skip")
            continue
        raise Violation("cut", "prefix-decoded", detail={"mode": "skip", "cut": k, "returned": jsonable(v), "wrapped_encoding": wenc.hex()[:600]}, scenario=desc)

    # ---- skipped value last, seekable input: fault-free + every cut ------------------------------
    lenc, _ls = refavro.encode(lnode, {"head": SENTINEL, "x": d}, refavro.Layout(ch))
    PLS = F.parse_schema(last_schema)
    PLR = F.parse_schema(last_reader)
    head_len = len(refavro.zz(SENTINEL))
    seekable = ch.chance(60)
    mk = (lambda data, cut=None: io.BytesIO(data if cut is None else data[:cut])) if seekable else \
         (lambda data, cut=None: ReadOnlySeq(data, cut=cut))
    ctx.probe("skip_last_seekable" if seekable else "skip_last_sequential")
    try:
        v = F.schemaless_reader(mk(lenc), PLS, PLR, **ropts)
    except Exception as e:  # noqa
        raise Violation("fault-free", "skip-valid-encoding-rejected", detail={"exc": jsonable(e), "form": "skipped-last", "seekable": seekable}, scenario=desc)
    n_eval += 1
    if v != {"head": SENTINEL}:
        raise Violation("fault-free", "skip-consumed-wrong-bytes", detail={"got": jsonable(v), "form": "skipped-last"}, scenario=desc)
    for k in _cuts(ch, len(lenc), ctx.tier):
        try:
            v = F.schemaless_reader(mk(lenc, k), PLS, PLR, **fopts)
        except Exception as e:  # noqa
            n_eval += 1
            ctx.fault("cut_skip_last")
            continue
        raise Violation("cut", "prefix-decoded", detail={"mode": "skip-last", "seekable": seekable, "cut": k, "len": len(lenc),
                                                           "returned": jsonable(v)}, scenario=desc)

    # ---- bad_index at every site ---------------------------------------------------------------
    for mode, data, st, sch, rs in (("read", enc, sites, PS, None), ("skip", wenc, wsites, PWS, PRS)):
        cap = 48 if ctx.tier == "quick" else 192
        if len(st) > cap:
            # very many index sites (large collections of unions/enums): first, last and a seeded sample
            q = cap // 4
            idx = sorted(set(range(q)) | set(range(len(st) - q, len(st))) | {ch.draw(len(st)) for _ in range(cap // 2)})
            st = [st[i] for i in idx]
            ctx.stat("site_sampled")
        for site in st:
            if mode == "skip" and site["kind"] == "enum":
                continue
            ctx.probe(site["kind"] + "_site")
            if site["depth"] >= 2:
                ctx.probe("index_depth_ge2")
            if mode == "skip":
                ctx.probe("skip_mode_index")
            for bv in _bad_values(site["n"], ch):
                forged = data[:site["off"]] + refavro.zz_any(bv) + data[site["off"] + site["len"]:]
                ctx.probe("bad_index_negative" if bv < 0 else "bad_index_high")
                fo = ReadOnlySeq(forged)
                try:
                    v = F.schemaless_reader(fo, sch, rs, **fopts) if rs is not None else F.schemaless_reader(fo, sch, **fopts)
                except Exception as e:  # noqa
                    n_eval += 1
                    ctx.fault("bad_index")
                    continue
                raise Violation("bad-index", f"{site['kind']}-index-accepted-{'negative' if bv < 0 else 'high'}",
                                detail={"mode": mode, "site": site, "index_value": bv, "returned": jsonable(v),
                                        "forged": forged.hex()[:600]}, scenario=desc)
    ctx.evals += n_eval
    ctx.steps += n_eval
    if len(enc) > 0:
        ctx.keyw(("enc", hashlib.blake2b(repr(schema).encode() + enc + wenc, digest_size=8).hexdigest()), n_eval)
