"""C06 -- truncated or sync-corrupted files never yield records that were not written.

Fault enumeration: per sampled file, every cut offset (quick: all offsets of small files,
boundary neighbourhoods + stride of large ones), every bit of every sync marker (quick: a
seeded subset), whole-marker replacements; plus every proper prefix of schemaless
encodings.  Truth about block boundaries comes from refavro, never from fastavro.
"""
import hashlib
import io

import env
import gen
import refavro
from streams import ReadOnlySeq, TellingSeq, buffered_seq
from runner import Violation
from props import common

ID = "C06"
LEVEL = "fault_enumeration"
QUICK_RUNS = 3500
QUICK_BUDGET_S = 50.0
THOROUGH_RUNS = 10 ** 9
BATCH = 10
RULE = ("one run = one seeded file (fastavro writer under C04's knobs, a multi-writer append/"
        "write_block history, or the foreign refavro writer with layouts fastavro never produces) "
        "or one schemaless encoding; one evaluation = one faulted read (cut(k) / sync bit flip / "
        "marker replacement) through reader or block_reader. Within a file the cut offsets and "
        "marker bits are enumerated (all offsets of files <= 1.5 KiB quick / 12 KiB thorough, else "
        "+-24 bytes around every structural boundary plus a stride; all 128 bits of each marker in thorough, a "
        "seeded 23-bit subset in quick; at most 6 / 24 markers per file get the full treatment). non-trivial = the fault lands "
        "inside the stored bytes; distinct = (file digest, reader, fault kind, offset/bit), counted "
        "as the number of such faults over distinct file digests")
ASSUMPTIONS = [
    "pure-Python fastavro modules only (no Cython build in this image)",
    "files are samples of an infinite space; enumeration is complete only per file",
    "block boundaries and expected records come from the independent refavro parser",
    "any exception class counts as 'raises'",
]
COMPONENTS = {
    "real": ["fastavro._read_py (reader, block_reader, schemaless_reader)", "fastavro._write_py (writer, Writer)",
             "fastavro.io.binary_decoder", "zlib/bz2/lzma"],
    "stub": ["ReadOnlySeq (read only)", "TellingSeq (read + tell)"],
    "oracle": ["refavro.parse_container", "refavro.decode", "refavro.value_eq"],
}
PROBES = ["input_buffered_reader", "route_lenient_unicode", "route_reader_option", "schemaless_prefix_skipped_tail", "cut_in_magic", "cut_in_header_map", "cut_in_header_sync", "cut_in_block_count",
          "cut_in_block_size", "cut_in_payload", "cut_in_block_sync", "cut_on_boundary",
          "zero_payload_block", "multi_block_file", "foreign_file", "history_file", "c07_history_file", "schemaless_prefix"]


def setup():
    env.load()


def _classify_cut(k, truth, data):
    if k < 4:
        return "cut_in_magic"
    hl = truth.header_len
    if k < hl - 16:
        return "cut_in_header_map"
    if k < hl:
        return "cut_in_header_sync"
    for (s, e, cnt, plen) in truth.blocks:
        if k == s:
            return "cut_on_boundary"
        if s < k < e:
            # layout: count varint, size varint, payload, sync
            _, p1 = refavro.unzz(data, s)
            _, p2 = refavro.unzz(data, p1)
            if k < p1:
                return "cut_in_block_count"
            if k < p2:
                return "cut_in_block_size"
            if k < p2 + plen:
                return "cut_in_payload"
            return "cut_in_block_sync"
    return "cut_on_boundary"


def _cut_offsets(ch, L, truth, tier):
    if L <= (1536 if tier == "quick" else 12288):
        return list(range(L))
    ks = set(range(min(L, 64)))
    bounds = [truth.header_len] + [b[1] for b in truth.blocks]
    if len(bounds) > 16:
        # hundreds / thousands of blocks: the first and last few boundaries and a seeded sample
        pick = set(range(6)) | set(range(len(bounds) - 6, len(bounds))) | {ch.draw(len(bounds)) for _ in range(8)}
        bounds = [bounds[i] for i in sorted(pick)]
    for b in bounds:
        ks.update(range(max(0, b - 24), min(L, b + 24)))
    stride = max(1, L // 120)
    ks.update(range(ch.draw(stride), L, stride))
    return sorted(ks)


def build_file(ch, ctx):
    """Returns (bytes, source-tag, description)."""
    F = common.fa()
    src = ch.weighted([5, 3, 2, 2])
    if src == 3:
        # a full C07-style history (failed writes, flushes, block copies, append re-opens with
        # unrelated arguments): a file made of many writers' blocks
        import runner
        from props import c07
        sub = runner.RunCtx("quick")
        st = c07.Stream("bytesio")
        data, model, node, desc, ops = c07._history(F, ch, sub, st)
        ctx.probe("history_file")
        ctx.probe("c07_history_file")
        d = dict(desc)
        d["history_ops"] = ops[:40]
        return data, "c07history", d, list(model.records), node
    if src == 0:
        sc = common.container_scenario(ch, max_records=10, size_profiles=True, wide=False)
        sc.sync_interval = common.draw_sync_interval(ch, common.encoded_sizes(sc) if sc.profile == "small" else [8], sc)
        if sc.profile != "small":
            ctx.probe("profile_" + sc.profile)
        if sc.profile == "small" and ch.chance(8):
            # >= 64 tiny records in one block: the block's count is a multi-byte varint
            sc.schema = {"type": "record", "name": "Tiny", "fields": [{"name": "serial", "type": "long"}]}
            sc.node = refavro.resolve(sc.schema)
            sc.records = [{"serial": i} for i in range(64 + ch.draw(80))]
            sc.sync_interval = 16000
        try:
            data = common.fa_file(sc)
        except Exception as e:  # noqa
            raise Violation("baseline", "writer-raises", detail={"exc": common.jsonable(e)}, scenario=sc.describe())
        return data, "fastavro", sc.describe(), [common.strip_hints(r, sc.node) for r in sc.records], sc.node
    if src == 1:
        # foreign writer: any partition incl. empty blocks, multi-chunk header, codec key absent
        sc = common.container_scenario(ch, max_records=10, wide=False)
        recs = [common.strip_hints(r, sc.node) for r in sc.records]
        blocks = []
        i = 0
        while i < len(recs):
            if ch.chance(15):
                blocks.append([])
            n = 1 + ch.draw(min(4, len(recs) - i))
            blocks.append(recs[i:i + n])
            i += n
        if ch.chance(20):
            blocks.append([])
        sync = ch.bytes(16)
        lay = refavro.Layout(ch)
        data, _ = refavro.write_container(sc.node, sc.schema, blocks, codec=sc.codec, sync=sync,
                                          meta=sc.metadata, ch=ch, codec_key=ch.chance(50), layout=lay)
        ctx.probe("foreign_file")
        d = sc.describe()
        d["foreign_blocks"] = [len(b) for b in blocks]
        return data, "foreign", d, recs, sc.node
    # history: several writers' blocks (append + write_block)
    sc = common.container_scenario(ch, max_records=9, top="record", wide=False)
    sc.sync_interval = common.draw_sync_interval(ch, common.encoded_sizes(sc))
    recs = sc.records
    cutp = ch.draw(len(recs) + 1)
    first, rest = recs[:cutp], recs[cutp:]
    fo = io.BytesIO()
    common.fa_write(sc, fo, records=first)
    if rest:
        # donor file with another codec, copied block-wise after an append re-open
        donor = io.BytesIO()
        F.writer(donor, sc.schema, rest, codec=common.draw_codec(ch), sync_interval=1 + ch.draw(64))
        donor.seek(0)
        fo.seek(0, 2)
        w = F.write.Writer(fo, None if ch.draw(2) else sc.schema, codec=ch.pick(common.CODECS),
                           sync_interval=1 + ch.draw(100))
        for blk in F.block_reader(donor):
            w.write_block(blk)
        w.flush()
    ctx.probe("history_file")
    d = sc.describe()
    d["history"] = {"first": len(first), "block_copied": len(rest)}
    return fo.getvalue(), "history", d, [common.strip_hints(r, sc.node) for r in recs], sc.node


def _is_prefix(Y, R):
    if len(Y) > len(R):
        return False
    return all(refavro.value_eq(y, r) for y, r in zip(Y, R))


def run_one(ch, ctx):
    F = common.fa()
    if ch.chance(12):
        return run_schemaless(ch, ctx)
    data, src, desc, submitted, node = build_file(ch, ctx)
    L = len(data)
    try:
        truth = refavro.parse_container(data)
    except refavro.RefError as e:
        # the peer cannot parse the fault-free file: that is C05's business, but C06 then
        # has no independent truth -> treat as violation of the baseline
        raise Violation("baseline", "peer-cannot-parse", detail=str(e), scenario=desc)
    R = truth.records
    if len(R) != len(submitted) or not all(refavro.normal_eq(node, s, r) for s, r in zip(submitted, R)):
        raise Violation("baseline", "peer-records-differ", detail={"n_ref": len(R), "n_sub": len(submitted)}, scenario=desc)
    bounds = {truth.header_len: 0}
    c = 0
    for (s, e, cnt, plen) in truth.blocks:
        c += cnt
        bounds[e] = c
        if plen == 0:
            ctx.probe("zero_payload_block")
    if len(truth.blocks) >= 2:
        ctx.probe("multi_block_file")
    fdig = hashlib.blake2b(data, digest_size=8).hexdigest()
    ctx.stat(f"files_{src}")
    ctx.stat(f"codec_{truth.codec}")
    ctx.stat(f"blocks_{min(len(truth.blocks), 5)}")
    ctx.sample = {"file": desc, "source": src, "len": L, "header_len": truth.header_len,
                  "blocks": [list(b) for b in truth.blocks][:8]}
    ctx.ev("file", fdig, L, src)

    # less common route: lenient unicode handling (no difference on the valid UTF-8 that was written)
    ropts = {}
    if ch.chance(25):
        ropts = {"handle_unicode_errors": ch.pick(["replace", "ignore"])}
        ctx.probe("route_lenient_unicode")
        desc = dict(desc, reader_options=ropts)
    # input stream: the read-only stubs, or a real io.BufferedReader with a tiny buffer for every read of this file
    bufsize = ch.pick([1, 2, 3, 5, 8, 13, 64, 1000]) if ch.chance(20) else None
    if bufsize:
        ctx.probe("input_buffered_reader")
        desc = dict(desc, input="io.BufferedReader(buffer_size=%d)" % bufsize)
        ReadOnlySeq = TellingSeq = lambda data, cut=None, flips=(): buffered_seq(data, bufsize, cut=cut, flips=flips)   # noqa
    else:
        from streams import ReadOnlySeq, TellingSeq   # noqa
    # fault-free baseline (both readers)
    Y, exc, stage = common.read_all(lambda: F.reader(ReadOnlySeq(data), **ropts))
    if exc is not None or not _is_prefix(Y, R) or len(Y) != len(R):
        raise Violation("baseline", "reader-fault-free", detail={"exc": exc, "n": len(Y), "expected": len(R)}, scenario=desc)
    Yb, meta, exc, stage = common.read_blocks(lambda: F.block_reader(TellingSeq(data), **ropts))
    if exc is not None or not _is_prefix(Yb, R) or len(Yb) != len(R):
        raise Violation("baseline", "block_reader-fault-free", detail={"exc": exc, "n": len(Yb), "expected": len(R)}, scenario=desc)

    nfaults = 0
    # ---- cut(k) ---------------------------------------------------------------------
    for k in _cut_offsets(ch, L, truth, ctx.tier):
        where = _classify_cut(k, truth, data)
        ctx.probe(where)
        for rname in ("reader", "block_reader"):
            if rname == "reader":
                Y, exc, stage = common.read_all(lambda: F.reader(ReadOnlySeq(data, cut=k), **ropts))
            else:
                Y, meta, exc, stage = common.read_blocks(lambda: F.block_reader(TellingSeq(data, cut=k), **ropts))
            nfaults += 1
            ctx.fault("cut")
            ctx.stat("exc_" + (type(exc).__name__ if exc is not None else "none"))
            ctx.ev("cut", k, rname, len(Y), type(exc).__name__ if exc else None)
            det = {"reader": rname, "fault": {"kind": "cut", "offset": k, "where": where}, "yielded": len(Y),
                   "ended": "normal" if exc is None else type(exc).__name__, "boundaries": sorted(bounds),
                   "file_len": L}
            if not _is_prefix(Y, R):
                raise Violation("cut", "not-a-prefix", detail=dict(det, got=Y[-2:]), scenario=desc)
            if k < truth.header_len:
                # a cut inside the header must be reported (when opening or, for a lazily
                # parsed header, when iterating) and nothing may be yielded
                if exc is None or Y:
                    raise Violation("cut", "header-cut-accepted", detail=det, scenario=desc)
                continue
            if exc is None and k not in bounds:
                raise Violation("cut", "normal-end-off-boundary", detail=det, scenario=desc)
            if k in bounds:
                if exc is not None:
                    raise Violation("cut", "boundary-cut-raises", detail=dict(det, msg=str(exc)[:200]), scenario=desc)
                if len(Y) != bounds[k]:
                    raise Violation("cut", "boundary-cut-wrong-count", detail=dict(det, expected=bounds[k]), scenario=desc)

    # ---- sync alterations -------------------------------------------------------------
    markers = [("header", truth.header_len - 16, 0)]
    cum = 0
    for j, (s, e, cnt, plen) in enumerate(truth.blocks):
        cum += cnt
        markers.append((j, e - 16, cum))
    first_cum = truth.blocks[0][2] if truth.blocks else 0
    cap = 6 if ctx.tier == "quick" else 24
    if len(markers) > cap:
        # many blocks: header marker, first and last blocks and a seeded sample get the full treatment
        keep = {0, 1, 2, len(markers) - 2, len(markers) - 1} | {ch.draw(len(markers)) for _ in range(cap - 5)}
        markers = [m for i, m in enumerate(markers) if i in keep]
        ctx.stat("marker_sampled")
    for (j, off, cumj) in markers:
        if j == "header" and not truth.blocks:
            continue
        limit = first_cum if j == "header" else cumj
        if ctx.tier == "thorough":
            bits = list(range(128))
        else:
            byte = ch.draw(16)
            bits = sorted({b * 8 + ch.draw(8) for b in range(16)} | {byte * 8 + i for i in range(8)})
        alts = [("flip", (off + b // 8, 1 << (b % 8))) for b in bits]
        orig = data[off:off + 16]
        for name, repl in (("zeros", b"\0" * 16), ("random", ch.bytes(16)), ("shifted", orig[1:] + orig[:1])):
            if repl != orig:
                alts.append((name, repl))
        for kind, arg in alts:
            if kind == "flip":
                mutated = None
                flips = [arg]
            else:
                mutated = data[:off] + arg + data[off + 16:]
                flips = ()
            for rname in ("reader", "block_reader"):
                src_bytes = mutated if mutated is not None else data
                if rname == "reader":
                    Y, exc, stage = common.read_all(lambda: F.reader(ReadOnlySeq(src_bytes, flips=flips), **ropts))
                else:
                    Y, meta, exc, stage = common.read_blocks(lambda: F.block_reader(TellingSeq(src_bytes, flips=flips), **ropts))
                nfaults += 1
                ctx.fault("sync_" + ("flip" if kind == "flip" else "replace"))
                ctx.ev("sync", j, kind, arg if kind == "flip" else None, rname, len(Y), type(exc).__name__ if exc else None)
                det = {"reader": rname, "fault": {"kind": "sync-" + kind, "block": j, "marker_offset": off,
                                                  "arg": arg}, "yielded": len(Y),
                       "ended": "normal" if exc is None else type(exc).__name__, "limit": limit}
                if not _is_prefix(Y, R):
                    raise Violation("sync", "not-a-prefix", detail=det, scenario=desc)
                if exc is None:
                    raise Violation("sync", "altered-marker-not-reported", detail=det, scenario=desc)
                if len(Y) > limit:
                    raise Violation("sync", "records-past-altered-marker", detail=det, scenario=desc)
    ctx.evals += nfaults
    ctx.steps += nfaults
    ctx.keyw(("file", fdig), nfaults)


def run_schemaless(ch, ctx):
    """Every proper prefix of a fastavro-written schemaless encoding must raise -- also when the
    reader's schema drops the trailing fields (they are skipped, not decoded), on seekable and on
    purely sequential input, and under reader options that do not concern well-formed data."""
    F = common.fa()
    schema, gstats = gen.schema(ch, max_depth=3)
    node = refavro.resolve(schema)
    dg = gen.DataGen(ch, hints=False, max_len=3, big_collections=False)
    d = dg.datum(node)
    fo = io.BytesIO()
    rs = None
    variant = ch.weighted([6, 4])
    if variant == 1:
        # the value sits behind a field the reader keeps and is itself dropped by the reader's schema
        ctx.probe("schemaless_prefix_skipped_tail")
        wschema = {"type": "record", "name": "WrapTail", "fields": [{"name": "head", "type": "long"}, {"name": "x", "type": schema}]}
        rschema = {"type": "record", "name": "WrapTail", "fields": [{"name": "head", "type": "long"}]}
        d = {"head": 77, "x": d}
        parsed = ch.chance(50)
        sch = F.parse_schema(wschema) if parsed else wschema
        rs = F.parse_schema(rschema) if parsed else rschema
        schema = wschema
    else:
        sch = F.parse_schema(schema) if ch.chance(50) else schema
    F.schemaless_writer(fo, sch, d)
    data = fo.getvalue()
    opts = {}
    if ch.chance(35):
        opts = ch.pick([{"handle_unicode_errors": "replace"}, {"handle_unicode_errors": "ignore"}, {"return_record_name": True},
                        {"return_named_type": True}])
        ctx.probe("route_reader_option")
    seekable = ch.chance(50)
    desc = {"schema": schema, "datum": common.jsonable(d), "encoding": data.hex()[:400], "reader_drops_tail": rs is not None,
            "reader_options": opts, "seekable_input": seekable}
    ctx.sample = {"schemaless": desc}
    ctx.probe("schemaless_prefix")
    ctx.ev("schemaless", data.hex())
    n = 0
    for k in range(len(data)):
        s = io.BytesIO(data[:k]) if seekable else ReadOnlySeq(data, cut=k)
        try:
            v = F.schemaless_reader(s, sch, rs, **opts)
        except Exception as e:  # noqa
            ctx.stat("exc_" + type(e).__name__)
            n += 1
            ctx.fault("cut_schemaless")
            continue
        raise Violation("schemaless-prefix", "prefix-decoded",
                        detail={"cut": k, "len": len(data), "returned": common.jsonable(v)}, scenario=desc)
    ctx.evals += n
    ctx.steps += n
    ctx.keyw(("schemaless", hashlib.blake2b(data, digest_size=8).hexdigest()), n)
