"""C07 -- any history of write / flush / block-copy / failed write / append re-open reads
back as exactly the records successfully submitted.

A seeded history of operations is applied to one output stream (BytesIO, SimFile with
POSIX append semantics, or a real temp file re-opened 'a+b') and to a reference model
(list of submitted records + header bytes).  After every flush and every re-open the
stream is read back and compared with the model.  Faults: write of a non-conforming
record (must raise, contributes nothing), restart (drop the writer, re-open for append
with unrelated but individually valid arguments).
"""
import io
import json
import os
import shutil
import tempfile

import env
import gen
import refavro
from streams import SimFile
from runner import Violation, Discard, jsonable
from props import common

ID = "C07"
LEVEL = "exploration"
QUICK_RUNS = 60000
QUICK_BUDGET_S = 50.0
THOROUGH_RUNS = 10 ** 9
BATCH = 100
RULE = ("one run = one seeded history of 1..40 operations over {create, write small/large/zero-byte "
        "record, write non-conforming record (fault), flush, write_block from a donor file, "
        "re-open for append with arbitrary valid schema/codec/metadata/marker arguments (restart)} "
        "on one stream, checked against a list-of-records model after every flush and re-open; "
        "one evaluation = one read-back check. non-trivial = history has >= 3 operations and at "
        "least one flush check with a non-empty model; distinct = digest of (schema, op sequence "
        "with arguments)")
ASSUMPTIONS = [
    "pure-Python fastavro modules only",
    "'close' is flush-then-drop (what the public writer() does); abandoning unflushed records is outside the statement",
    "re-open arguments are individually valid (valid schema, known codec)",
    "a non-conforming record that fastavro accepts discards the run (that acceptance is C10's question)",
]
COMPONENTS = {
    "real": ["fastavro._write_py.Writer / writer", "fastavro._read_py.reader / block_reader", "io.BytesIO", "real temp file opened 'a+b'"],
    "stub": ["SimFile (seekable, append semantics)"],
    "oracle": ["list-of-records reference model", "refavro.normal_eq / parse_container (second opinion)"],
}
PROBES = ["failed_write_with_pending", "failed_write_first_after_create", "failed_write_validator_on",
          "write_block_with_pending", "append_after_empty_flush", "append_different_args", "append_revised_schema",
          "zero_byte_records_only", "donor_codec_differs", "block_reused", "block_pre_iterated",
          "foreign_donor", "large_record", "real_file", "foreign_start", "header_gt_64k"]


def setup():
    env.load()


class Model:
    def __init__(self):
        self.records = []
        self.header = None


def _unrelated_schema(ch):
    return ch.pick([
        {"type": "record", "name": "Other", "fields": [{"name": "x", "type": "string"}]},
        "long",
        {"type": "enum", "name": "EE", "symbols": ["Q"]},
        {"type": "record", "name": "R0", "fields": [{"name": "serial", "type": "string"}]},
    ])


class Stream:
    """The output stream under test, of one of three kinds."""

    def __init__(self, kind):
        self.kind = kind
        self.tmpdir = None
        if kind == "bytesio":
            self.fo = io.BytesIO()
        elif kind == "simfile":
            self.fo = SimFile(b"", "w+b")
        else:
            self.tmpdir = tempfile.mkdtemp(prefix="verif-c07-")
            self.path = os.path.join(self.tmpdir, "f.avro")
            self.fo = open(self.path, "w+b")

    def value(self, include_unflushed=False):
        # what another process would see: only what has gone through the stream's own flush()
        # (every read-back check comes after a Writer.flush(), which has to push its bytes all the way)
        if self.kind == "realfile":
            if include_unflushed:
                self.fo.flush()
            with open(self.path, "rb") as f:
                return f.read()
        if self.kind == "simfile" and not include_unflushed:
            return self.fo.getvalue()[:self.fo.flushed]
        return self.fo.getvalue()

    def reopen(self):
        if self.kind == "bytesio":
            self.fo.seek(0, 2)
        elif self.kind == "simfile":
            self.fo = SimFile(self.fo.getvalue(), "a+b")
        else:
            self.fo.close()
            self.fo = open(self.path, "a+b")
        return self.fo

    def close(self):
        if self.tmpdir:
            try:
                self.fo.close()
            finally:
                shutil.rmtree(self.tmpdir, ignore_errors=True)


def _check(F, st, model, node, desc, ops, ctx, where):
    data = st.value()
    ctx.evals += 1
    if model.header is None and data:
        try:
            model.header = data[:refavro.parse_container(data, decode_records=False).header_len]
        except refavro.RefError:
            pass
    if model.header is not None and data[:len(model.header)] != model.header:
        raise Violation("header", "header-changed", detail={"at": where, "ops": ops}, scenario=desc)
    Y, exc, stage = common.read_all(lambda: F.reader(io.BytesIO(data)))
    det = {"at": where, "ops": ops, "read_back": jsonable(Y[-3:]), "n_read": len(Y),
           "n_model": len(model.records), "exc": jsonable(exc) if exc else None}
    if exc is not None:
        raise Violation("readback", "raises", detail=det, scenario=desc)
    if len(Y) != len(model.records):
        raise Violation("readback", "count-differs", detail=det, scenario=desc)
    for i, (m, y) in enumerate(zip(model.records, Y)):
        if not refavro.normal_eq(node, m, y):
            det["index"] = i
            det["expected"] = jsonable(m)
            det["got"] = jsonable(y)
            raise Violation("readback", "record-differs", detail=det, scenario=desc)
    ctx.ev("check", where, len(Y), len(data))
    return data


def run_one(ch, ctx):
    F = common.fa()
    kind = ["bytesio", "simfile", "realfile"][ch.weighted([6, 5, 1])]
    if kind == "realfile":
        ctx.probe("real_file")
    st = Stream(kind)
    try:
        _history(F, ch, ctx, st)
    finally:
        st.close()


def _history(F, ch, ctx, st):
    zero = ch.chance(6)
    if zero:
        schema = gen.zero_byte_schema()
    else:
        schema, _ = gen.schema(ch, top="record", serial_field=True, max_depth=2, max_fields=3)
    node = refavro.resolve(schema)
    dg = gen.DataGen(ch, max_len=2, big_collections=False, hints=False)
    model = Model()
    codec = common.draw_codec(ch, heavy_pct=10)
    sizes = []
    probe_d = dg.datum(node)
    try:
        sizes = [len(refavro.encode(node, common.strip_hints(probe_d, node))[0])]
    except Exception:
        sizes = [8]
    sync_interval = common.draw_sync_interval(ch, sizes * 3)
    validator = ch.chance(30)
    marker = ch.bytes(16) if ch.chance(50) else b""
    metadata = {"k": "v"} if ch.chance(30) else None
    if metadata is not None and ch.chance(15):
        metadata["avro.schema"] = json.dumps({"type": "record", "name": "Stale", "fields": [{"name": "zz", "type": "string"}]})
        metadata["avro.codec"] = ch.pick(common.CODECS)   # stale reserved entries taken over from another file
    if metadata is not None and ch.chance(12):
        metadata["big"] = "m" * ch.pick([65536, 70000])   # a header beyond 64 KiB
        ctx.probe("header_gt_64k")
    desc = {"schema": schema, "stream": st.kind, "codec": codec, "sync_interval": sync_interval,
            "validator": validator, "sync_marker": jsonable(marker),
            "metadata": {k: (v if len(v) < 100 else v[:20] + "...(%d)" % len(v)) for k, v in metadata.items()} if metadata else None}
    ops = []
    serial = [0]
    nflush_nonempty = 0

    def new_record(large=False):
        d = dg.datum(node)
        if not zero:
            d = dict(d)
            d["serial"] = serial[0]
            serial[0] += 1
        if large and not zero:
            # blow the record up beyond any sync interval via a string/bytes field if there is one
            top = refavro.deref(node)
            for f in top.fields[1:]:
                k = refavro.deref(f.type).k
                if k == "string":
                    d[f.name] = "L" * (200 + ch.draw(300))
                    ctx.probe("large_record")
                    break
                if k == "bytes":
                    d[f.name] = b"L" * (200 + ch.draw(300))
                    ctx.probe("large_record")
                    break
        return d

    kw = dict(codec=codec, sync_interval=sync_interval, validator=validator)
    if marker:
        kw["sync_marker"] = marker
    if metadata is not None:
        kw["metadata"] = dict(metadata)
    wschema = F.parse_schema(json.loads(json.dumps(schema))) if ch.chance(40) else schema
    foreign_start = ch.chance(10)
    if foreign_start:
        # the stream already holds a layout-valid file from ANOTHER writer (header map possibly in
        # several chunks, codec key possibly absent, empty blocks); fastavro only ever appends to it
        ctx.probe("foreign_start")
        nrec0 = ch.draw(4)
        recs0 = [common.strip_hints(new_record(), node) for _ in range(nrec0)]
        fcodec = "null" if ch.chance(60) else codec
        blocks0 = [recs0[:1], [], recs0[1:]] if recs0 and ch.chance(50) else ([recs0] if recs0 else [])
        fbytes, ftruth = refavro.write_container(node, schema, blocks0, codec=fcodec, sync=ch.bytes(16), ch=ch,
                                                 codec_key=(fcodec != "null") or ch.chance(40), meta=metadata,
                                                 layout=refavro.Layout(ch))
        st.fo.write(fbytes)
        model.records.extend(refavro.parse_container(fbytes).records)   # what the foreign writer actually stored
        model.header = fbytes[:ftruth["header_len"]]
        desc["foreign_start"] = {"codec": fcodec, "blocks": [len(b) for b in blocks0], "header_chunks": ftruth["header_chunks"]}
        fo = st.reopen()
        rk = dict(codec=ch.pick(common.CODECS), sync_interval=sync_interval, validator=validator)
        if ch.chance(40):
            rk["compression_level"] = ch.pick([1, 9])
        if ch.chance(40):
            rk["metadata"] = {"other": "meta"}
        try:
            w = F.write.Writer(fo, None if ch.draw(2) else wschema, **rk)
        except Exception as e:  # noqa
            raise Violation("reopen", "append-to-foreign-file-raises", detail={"exc": jsonable(e), "args": jsonable(rk)}, scenario=desc)
        ops.append({"op": "foreign_file_then_reopen", "codec_arg": rk["codec"], "n": nrec0})
        _check(F, st, model, node, desc, ops, ctx, "after-foreign-reopen")
    else:
        w = F.write.Writer(st.fo, wschema, **kw)
        ops.append({"op": "create"})
        model.header = st.value(include_unflushed=True)   # no flush has been asked for yet
    if model.header and not foreign_start:
        # whatever is on the stream once the writer exists must be exactly a complete header
        # (an implementation that writes the header lazily leaves the stream empty here; the
        # header is then pinned at the first read-back check instead)
        try:
            hl = refavro.parse_container(model.header, decode_records=False).header_len
        except refavro.RefError as e:
            raise Violation("header", "header-not-parsable-after-create", detail=str(e), scenario=desc)
        if hl != len(model.header):
            raise Violation("header", "bytes-after-header-at-create", detail={"header_len": hl, "stream_len": len(model.header)}, scenario=desc)
    else:
        model.header = None

    nops = 1 + ch.draw(40 if ctx.tier == "thorough" else 24)
    ch.mark_count()
    weights = [ch.pick([0, 2, 6]), ch.pick([0, 1, 3]), ch.pick([1, 3]), ch.pick([0, 1, 3]), ch.pick([0, 1, 2]), ch.pick([0, 1])]
    pending = 0          # records written since the last dump-causing event (approximation for probes only)
    only_zero = zero
    last = "create"
    for _ in range(nops):
        ch.mark()
        op = ch.weighted([max(1, weights[0])] + weights[1:])
        if op == 0:     # write good record
            d = new_record(large=ch.chance(15))
            try:
                w.write(d)
            except Exception as e:  # noqa
                raise Violation("write", "conforming-record-rejected",
                                detail={"record": jsonable(d), "exc": jsonable(e), "ops": ops}, scenario=desc)
            model.records.append(d)
            ops.append({"op": "write", "serial": d.get("serial") if isinstance(d, dict) else None})
            pending += 1
            last = "write"
        elif op == 1:   # failed write (fault)
            good = new_record()
            ok, bad = gen.mutate_bad(ch, node, good)
            if not ok:
                continue
            ctx.fault("reject")
            if pending:
                ctx.probe("failed_write_with_pending")
            if last == "create":
                ctx.probe("failed_write_first_after_create")
            if validator:
                ctx.probe("failed_write_validator_on")
            try:
                w.write(bad)
            except Exception as e:  # noqa
                ops.append({"op": "write_bad", "record": jsonable(bad), "raised": type(e).__name__})
                last = "write_bad"
            else:
                raise Discard("nonconforming_accepted")
        elif op == 2:   # flush + check
            w.flush()
            ops.append({"op": "flush"})
            if not model.records:
                last = "empty_flush"
            else:
                nflush_nonempty += 1
                last = "flush"
            pending = 0
            _check(F, st, model, node, desc, ops, ctx, f"flush#{len(ops)}")
        elif op == 3:   # write_block from a donor
            nrec = 1 + ch.draw(4)
            drecs = [new_record() for _ in range(nrec)]
            dcodec = common.draw_codec(ch, heavy_pct=10)
            if dcodec != codec:
                ctx.probe("donor_codec_differs")
            plain = [common.strip_hints(r, node) for r in drecs]
            if ch.chance(35):
                ctx.probe("foreign_donor")
                blocks = []
                i = 0
                while i < len(plain):
                    n = 1 + ch.draw(len(plain) - i)
                    blocks.append(plain[i:i + n])
                    i += n
                dbytes, _ = refavro.write_container(node, schema, blocks, codec=dcodec, sync=ch.bytes(16), ch=ch,
                                                    layout=refavro.Layout(ch))
            else:
                dfo = io.BytesIO()
                F.writer(dfo, schema, drecs, codec=dcodec, sync_interval=1 + ch.draw(40))
                dbytes = dfo.getvalue()
            try:
                blocks = list(F.block_reader(io.BytesIO(dbytes)))
                expected = refavro.parse_container(dbytes)
            except Exception as e:  # noqa
                raise Violation("donor", "donor-file-unreadable", detail={"exc": jsonable(e), "donor_codec": dcodec, "ops": ops}, scenario=desc)
            bi = 0
            offs = 0
            for b in blocks:
                brecs = expected.records[offs:offs + b.num_records]
                offs += b.num_records
                if ch.chance(25):
                    list(b)  # pre-iterate
                    ctx.probe("block_pre_iterated")
                if pending:
                    ctx.probe("write_block_with_pending")
                times = 2 if ch.chance(15) else 1
                if times == 2:
                    ctx.probe("block_reused")
                for _t in range(times):
                    w.write_block(b)
                    model.records.extend(brecs)
                    pending = 0
                bi += 1
            ops.append({"op": "write_block", "donor_codec": dcodec, "blocks": [b.num_records for b in blocks]})
            last = "write_block"
        elif op == 4:   # restart: flush, drop, re-open for append with unrelated arguments
            w.flush()
            if last == "empty_flush" or not model.records:
                ctx.probe("append_after_empty_flush")
            fo = st.reopen()
            how = ch.draw(4)
            rs = None if how == 0 else (schema if how == 1 else _unrelated_schema(ch))
            if how == 3:
                # a later revision of the file's own schema: same names, other definitions
                rs = common.revised_schema(ch, schema)
                try:
                    F.parse_schema(json.loads(json.dumps(rs)))
                    ctx.probe("append_revised_schema")
                except Exception:  # noqa -- the revision happens not to be a valid schema
                    rs = None
            rk = dict(codec=ch.pick(common.CODECS), sync_interval=common.draw_sync_interval(ch, sizes * 2),
                      validator=validator)
            if ch.chance(50):
                rk["sync_marker"] = ch.bytes(16)
            if ch.chance(50):
                rk["metadata"] = {"other": "meta", "avro.codec": "deflate"} if ch.chance(30) else {"a": "b"}
            if how >= 2 or rk["codec"] != codec or "sync_marker" in rk:
                ctx.probe("append_different_args")
            ctx.fault("restart")
            try:
                w = F.write.Writer(fo, rs, **rk)
            except Exception as e:  # noqa
                raise Violation("reopen", "append-reopen-raises", detail={"exc": jsonable(e), "args": jsonable(rk), "schema": rs, "ops": ops}, scenario=desc)
            ops.append({"op": "reopen", "schema": "None" if rs is None else ("same" if how == 1 else ("unrelated" if how == 2 else rs)),
                        "codec": rk["codec"], "marker": "sync_marker" in rk})
            pending = 0
            last = "reopen"
            _check(F, st, model, node, desc, ops, ctx, f"reopen#{len(ops)}")
        else:           # public writer() call appending a batch (create+write+flush in one)
            w.flush()
            fo = st.reopen()
            batch = [new_record() for _ in range(ch.draw(4))]
            try:
                F.writer(fo, None if ch.draw(2) else schema, batch, codec=ch.pick(common.CODECS),
                         sync_interval=common.draw_sync_interval(ch, sizes * 2))
            except Exception as e:  # noqa
                raise Violation("reopen", "append-writer-call-raises", detail={"exc": jsonable(e), "ops": ops}, scenario=desc)
            model.records.extend(batch)
            ops.append({"op": "writer_call_append", "n": len(batch)})
            _check(F, st, model, node, desc, ops, ctx, f"writer_call#{len(ops)}")
            fo = st.reopen()
            w = F.write.Writer(fo, None)
            pending = 0
            last = "reopen"
    # final flush + check, second opinion from the independent parser
    w.flush()
    ops.append({"op": "flush"})
    data = _check(F, st, model, node, desc, ops, ctx, "final")
    if only_zero and model.records:
        ctx.probe("zero_byte_records_only")
    try:
        ref = refavro.parse_container(data)
        if len(ref.records) != len(model.records):
            ctx.stat("peer_disagrees_count")
    except refavro.RefError:
        ctx.stat("peer_cannot_parse")
    ctx.steps += len(ops)
    ctx.stat("ops", len(ops))
    ctx.sample = {"scenario": desc, "ops": ops[:30]}
    ctx.ev("history", json.dumps(jsonable(ops), sort_keys=True, default=str))
    if len(ops) >= 3 and (nflush_nonempty or model.records):
        ctx.key(json.dumps(schema, sort_keys=True), json.dumps(jsonable(ops), sort_keys=True, default=str))
    return data, model, node, desc, ops
