"""C01 -- binary round trip and exact consumption on a shared stream.

A *message stream*: a producer task calls schemaless_writer k times back to back on the
write end of a simulated pipe, a consumer task calls schemaless_reader k times on the read
end; a seeded scheduler decides every hand-off.  Streaming mode (producer free-runs) and
ping-pong mode (value i+1 is written only after value i was read: an over-reading decoder
deadlocks).  The fault-free sequential configuration (one buffer, write all then read all
through a read-only input) covers the round-trip clause over more sampled inputs.
"""
import hashlib
import io
import json

import env
import gen
import refavro
import sched
from streams import SimPipe, ReadOnlySeq, WriteOnlySink, buffered_seq
from runner import Violation, jsonable
from props import common

ID = "C01"
LEVEL = "exploration"
QUICK_RUNS = 9000
SUBRUNS = 2          # two scenarios per run, one after the other in the same process (see runner.execute)
QUICK_BUDGET_S = 50.0
THOROUGH_RUNS = 10 ** 9
BATCH = 100
RULE = ("one run = one seeded (schema, k values) message stream: producer task (schemaless_writer x k) and "
        "consumer task (schemaless_reader x k) over a simulated pipe of drawn capacity (1,2,7,64,unbounded) "
        "under one seeded schedule, streaming or ping-pong, optionally closing at a value boundary; or the "
        "same values written then read back sequentially through write-only / read-only streams. one "
        "evaluation = one value written and read. non-trivial = at least one value with a non-empty "
        "encoding; distinct = digest of (schema, values, mode, capacity, interleaving signature)")
ASSUMPTIONS = [
    "pure-Python fastavro modules only",
    "pipe semantics = io.BufferedReader over an OS pipe: read(n) blocks until n bytes or EOF; raw short reads are outside the property",
    "values are seeded samples of an infinite input space (the round-trip clause is evidence, not proof)",
    "floats for 'float' are written as given and compared after binary32 rounding; strings are valid Unicode; at a union any branch the datum conforms to is accepted (branch choice is C09's)",
    "omitted bytes/fixed fields with defaults are kept out of the random workload (known finding) and exercised as a fixed finding probe",
]
COMPONENTS = {
    "real": ["fastavro._write_py.schemaless_writer", "fastavro._read_py.schemaless_reader", "fastavro.io.binary_encoder/decoder", "threading.Thread"],
    "stub": ["SimPipe (bounded byte queue, cooperative blocking)", "scheduler", "WriteOnlySink", "ReadOnlySeq"],
    "oracle": ["byte accounting at the seam (bytes written per call vs bytes consumed per read)", "refavro.normal_eq"],
}
PROBES = ["input_buffered_reader", "route_writer_option", "route_reader_option", "mode_streaming", "mode_pingpong", "mode_sequential", "capacity_1", "capacity_unbounded",
          "close_at_boundary", "parsed_shared_schema", "zero_length_value", "omitted_default",
          "hint_tuple", "hint_dash_type", "float_special", "collection_ge64", "record_depth_ge3",
          "string_multibyte", "int_extreme", "array_as_tuple", "profile_huge", "profile_deep", "string_huge",
          "bytes_huge", "collection_ge8192", "recursion_depth_ge30", "int_magnitude_threshold", "profile_exotic_types",
          "mapping_not_dict", "array_as_array_array"]


def setup():
    env.load()
    sched.instrument(env.REPO)


def min_len(n, seen=None):
    """Lower bound of the encoded length of any value of node n."""
    seen = seen or set()
    n0 = n
    n = refavro.deref(n)
    k = n.k
    if k == "null":
        return 0
    if k in ("boolean", "int", "long", "bytes", "string", "enum", "array", "map"):
        return 1
    if k == "float":
        return 4
    if k == "double":
        return 8
    if k == "fixed":
        return n.size
    if k == "union":
        return 1
    if k == "record":
        if n.name in seen:
            return 0
        seen = seen | {n.name}
        return sum(min_len(f.type, seen) for f in n.fields)
    return 0


AMBIG_RECORD_SIG = "roundtrip:union-record-branch-matched-by-ignoring-extra-keys"


def finding_probes():
    """Fixed probe for the known finding: omitted bytes/fixed field with a default."""
    F = common.fa()
    out = []
    schema = {"type": "record", "name": "P", "fields": [{"name": "b", "type": "bytes", "default": "ÿ"}]}
    try:
        fo = io.BytesIO()
        F.schemaless_writer(fo, schema, {})
        fo.seek(0)
        v = F.schemaless_reader(fo, schema)
        rep = v != {"b": b"\xff"}
    except Exception:  # noqa
        rep = True
    out.append(("roundtrip:omitted-bytes-default", rep,
                "schemaless_writer(fo, record{b: bytes default '\\u00ff'}, {}) must write the default"))
    # regression probe for a repaired defect (not listed as known: if it comes back it is a violation)
    tup = {"type": "record", "name": "R0", "fields": [{"name": "f3", "type": ["null", {"type": "record", "name": "R1", "fields": [
        {"name": "f0", "type": {"type": "array", "items": "null"}}]}, {"type": "record", "name": "R2", "fields": [{"name": "f0", "type": ["boolean"]}]}]}]}
    rep3 = False
    for dt in ({"f3": {"f0": ()}}, {"f3": {"f0": (None, None, None)}}):
        try:
            fo = io.BytesIO()
            F.schemaless_writer(fo, tup, dt)
            fo.seek(0)
            if F.schemaless_reader(fo, tup) != {"f3": {"f0": list(dt["f3"]["f0"])}}:
                rep3 = True
        except Exception:  # noqa
            rep3 = True
    out.append(("roundtrip:tuple-array-unpacked-as-hint", rep3,
                "a tuple of length != 2 used as an array value below a union must be written as a sequence"))
    # a mapping datum that conforms to a record branch AND (because validation ignores extra keys) to a
    # later map branch is written under the map branch and loses keys
    u = [{"type": "record", "name": "R0", "fields": [{"name": "f0", "type": {"type": "map", "values": "null"}, "default": {}}]},
         {"type": "map", "values": "R0"}]
    d = {"f0": {"k0": None}}
    try:
        fo = io.BytesIO()
        F.schemaless_writer(fo, u, d)
        fo.seek(0)
        rep2 = F.schemaless_reader(fo, u) != d
    except Exception:  # noqa
        rep2 = True
    # the same lack of precedence between two RECORD branches: an earlier record that accepts the datum only
    # because validation ignores keys it does not have wins over the later record the datum fits exactly
    u2 = [{"type": "record", "name": "R0", "fields": [{"name": "f0", "type": {"type": "record", "name": "R1", "fields": []}}]},
          {"type": "record", "name": "R2", "fields": [{"name": "f0", "type": {"type": "record", "name": "R3", "fields": [
              {"name": "f0", "type": "null"}, {"name": "f1", "type": "null"}]}}]}]
    d2 = {"f0": {"f0": None, "f1": None}}
    try:
        fo = io.BytesIO()
        F.schemaless_writer(fo, u2, d2)
        fo.seek(0)
        rep4 = F.schemaless_reader(fo, u2) != d2
    except Exception:  # noqa
        rep4 = True
    out.append((AMBIG_RECORD_SIG, rep4,
                "[R0{f0: R1{}}, R2{f0: R3{f0: null, f1: null}}] with {'f0': {'f0': None, 'f1': None}} (an exact R2) must read back unchanged"))
    out.append(("roundtrip:union-map-branch-wins-over-matching-record", rep2,
                "[R0{f0: map<null> default {}}, map<R0>] with {'f0': {'k0': None}} must read back unchanged"))
    return out


# The first few values a worker process round-trips are encoded and decoded again in later runs of the same
# process (each batch has its own freshly forked process): tables that fill up, ids that are re-used and
# counters that leak on error paths must not change how an earlier value is written or read.
_CANARIES = []


def _check_canaries(F, ctx):
    for c in _CANARIES:
        c["age"] += 1
        if c["age"] % 4 and c["age"] < 64:
            continue
        ctx.stat("canary_reruns")
        try:
            fo = io.BytesIO()
            for d in c["values"]:
                F.schemaless_writer(fo, json.loads(c["schema"]), d)
            data = fo.getvalue()
            fo.seek(0)
            got = [F.schemaless_reader(fo, json.loads(c["schema"])) for _ in c["values"]]
        except Exception as e:  # noqa
            raise Violation("history", "earlier-value-no-longer-round-trips", detail={"runs_since": c["age"], "exc": jsonable(e)}, scenario=c["desc"])
        if data != c["data"] or not all(refavro.value_eq(a, b) for a, b in zip(got, c["got"])):
            raise Violation("history", "earlier-value-round-trips-differently-later",
                            detail={"runs_since": c["age"], "bytes_first": c["data"].hex()[:200], "bytes_now": data.hex()[:200],
                                    "first": jsonable(c["got"][:2]), "now": jsonable(got[:2])}, scenario=c["desc"])


def run_one(ch, ctx):
    F = common.fa()
    _check_canaries(F, ctx)
    schema, gstats = gen.schema(ch, max_depth=3, max_fields=4)
    node = refavro.resolve(schema)
    mode = ch.weighted([4, 3, 3])
    wopts, ropts = {}, {}
    if mode == 0:
        # swarm: size / depth profile per run
        huge = ch.chance(8)
        deep = ch.chance(8)
        exotic = ch.chance(12)
        # less common routes to the same functionality: writer / reader options that must not change
        # what a conforming datum round-trips to
        variant = ch.weighted([70, 6, 6, 6, 12])
        if variant == 1:
            wopts = {"strict": True}                    # every field present, no extra keys
        elif variant == 2:
            wopts = {"strict_allow_default": True}      # defaulted fields may be omitted, no extra keys
        elif variant == 3:
            wopts = {"disable_tuple_notation": True}
        elif variant == 4:
            ropts = ch.pick(READ_OPTS)                  # named union branches come back as (name, value)
        if variant:
            ctx.probe("route_writer_option" if wopts else "route_reader_option")
        dg = gen.DataGen(ch, hints=(variant in (0, 4)), tuples=(variant != 3), omit_defaults=(variant != 1), max_len=3,
                         huge=huge, deep=deep, exotic=exotic and not wopts)
        if exotic:
            ctx.probe("profile_exotic_types")
        if huge:
            ctx.probe("profile_huge")
        if deep:
            ctx.probe("profile_deep")
    else:
        # pipe runs hand over byte by byte at small capacities: keep values small
        dg = gen.DataGen(ch, hints=True, tuples=True, max_len=3, big_collections=False, long_strings=(63, 64, 65))
    k = 1 + ch.draw(5)
    values = [dg.datum(node) for _ in range(k)]
    for p, c in dg.probes.items():
        ctx.probe(p, c)
    shared = ch.chance(50)
    S = F.parse_schema(json.loads(json.dumps(schema))) if shared else schema
    if shared:
        ctx.probe("parsed_shared_schema")
    desc = {"schema": schema, "values": jsonable(values), "parsed": shared}
    if wopts or ropts:
        desc["writer_options"], desc["reader_options"] = wopts, ropts
    if mode == 0:
        return sequential(F, ch, ctx, S, node, values, desc, wopts, ropts)
    return piped(F, ch, ctx, S, node, values, desc, pingpong=(mode == 2))


def _check_values(node, values, got, desc, extra):
    for i, (d, v) in enumerate(zip(values, got)):
        if not refavro.normal_eq(node, d, v):
            raise Violation("roundtrip", "value-differs", detail=dict(extra, index=i, written=jsonable(d), read=jsonable(v)), scenario=desc)


READ_OPTS = [{"return_record_name": True}, {"return_record_name": True, "return_record_name_override": True},
             {"return_named_type": True}, {"return_named_type": True, "return_named_type_override": True}]


def sequential(F, ch, ctx, S, node, values, desc, wopts={}, ropts={}):
    ctx.probe("mode_sequential")
    sink = WriteOnlySink()
    bounds = []
    for d in values:
        try:
            F.schemaless_writer(sink, S, d, **wopts)
        except Exception as e:  # noqa
            sig = None
            if (wopts.get("strict") or wopts.get("strict_allow_default")) and isinstance(e, ValueError) \
                    and "more fields than the schema specifies" in str(e) and refavro.has_record_branch_ambiguity(node, d):
                # known finding: the union branch was chosen by a validation that ignores extra keys, the strict
                # writer then refuses those keys although a later branch fits the datum exactly
                sig = AMBIG_RECORD_SIG
            raise Violation("roundtrip", "conforming-datum-rejected", detail={"datum": jsonable(d), "exc": jsonable(e)}, sig=sig, scenario=desc)
        bounds.append(len(sink.getvalue()))
    if set(sink.ops()) - {"write", "flush", "seekable"}:
        raise Violation("stream-calls", "writer-used-other-calls", detail={"ops": sink.ops(), "forbidden": sink.forbidden}, scenario=desc)
    data = sink.getvalue()
    bufsize = None
    if ch.chance(30):
        # a real io.BufferedReader with a tiny buffer (what open(path, "rb") gives, boundary every few bytes)
        bufsize = ch.pick([1, 2, 3, 5, 8, 13, 64])
        ctx.probe("input_buffered_reader")
        src = buffered_seq(data, bufsize)
        desc = dict(desc, input="io.BufferedReader(buffer_size=%d)" % bufsize)
    else:
        src = ReadOnlySeq(data)
    got = []
    for i in range(len(values)):
        try:
            v = F.schemaless_reader(src, S, **ropts)
            # with return_record_name / return_named_type the named branches of unions come back in the
            # (name, value) notation the writer accepts as a hint: strip it like any other hint
            got.append(common.strip_hints(v, node) if ropts else v)
        except Exception as e:  # noqa
            raise Violation("roundtrip", "read-back-raises", detail={"index": i, "exc": jsonable(e), "bytes": data.hex()[:400]}, scenario=desc)
        consumed = src.tell() if bufsize else src.consumed
        if consumed != bounds[i]:
            raise Violation("exact-consumption", "consumed-differs-from-written",
                            detail={"index": i, "consumed": consumed, "written_boundary": bounds[i], "mode": "sequential"}, scenario=desc)
    for name in getattr(src, "forbidden", ()):
        ctx.stat("probed_" + name)   # probing for an optional method is not a call: the stream refused it and reading went on
    _check_values(node, values, got, desc, {"mode": "sequential"})
    if any(b == a for a, b in zip([0] + bounds, bounds)):
        ctx.probe("zero_length_value")
    ctx.evals += len(values)
    ctx.steps += len(values) * 2
    if len(_CANARIES) < 3 and 0 < len(data) < 4096 and not wopts and not ropts:
        try:
            _CANARIES.append({"schema": json.dumps(desc["schema"]), "values": values, "data": data, "got": got, "desc": desc, "age": 0})
        except (TypeError, ValueError):
            pass
    ctx.ev("seq", data.hex())
    ctx.sample = dict(desc, mode="sequential", bytes=len(data))
    if data:
        ctx.key("seq", json.dumps(desc, sort_keys=True, default=str))


def piped(F, ch, ctx, S, node, values, desc, pingpong):
    cap = ch.pick([1, 2, 7, 64, None])
    try:
        total = sum(len(refavro.encode(node, common.strip_hints(d, node))[0]) for d in values)
    except Exception:  # noqa
        total = 0
    if cap is not None and total > 4096 * cap:
        # byte-wise hand-over of tens of kilobytes (fixed types of 8-70 KB) would take millions of scheduler steps
        cap = ch.pick([4096, 65536, None])
    ctx.probe("mode_pingpong" if pingpong else "mode_streaming")
    if cap == 1:
        ctx.probe("capacity_1")
    if cap is None:
        ctx.probe("capacity_unbounded")
    close_probe = ch.chance(30) and min_len(node) > 0
    monitor = ch.chance(50)
    strategy = ("uniform",) if ch.draw(2) else ("sticky", ch.pick([500, 900]))
    sc = sched.Scheduler(ch.fork("sched"), strategy, max_steps=2_000_000, monitor=monitor)
    pipe = SimPipe(sc, cap)
    k = len(values)
    state = {"acked": 0, "w_bounds": [], "r_bounds": [], "got": [], "extra": None}

    def producer():
        try:
            for i, d in enumerate(values):
                if pingpong:
                    sc.block_until(lambda: state["acked"] >= i, "await-ack")
                F.schemaless_writer(pipe.w, S, d)
                state["w_bounds"].append(pipe.total_written)
        finally:
            pipe.w.close()
        return "done"

    def consumer():
        for i in range(k):
            v = F.schemaless_reader(pipe.r, S)
            state["got"].append(v)
            state["r_bounds"].append(pipe.total_read)
            state["acked"] = i + 1
        if close_probe:
            # fault: the write end is closed exactly at a value boundary; one more read must raise
            try:
                v = F.schemaless_reader(pipe.r, S)
                state["extra"] = ("returned", v)
            except Exception as e:  # noqa
                state["extra"] = ("raised", type(e).__name__)
        return "done"

    sc.spawn("producer", producer)
    sc.spawn("consumer", consumer)
    info = {"mode": "pingpong" if pingpong else "streaming", "capacity": cap, "monitor": monitor,
            "strategy": list(strategy)}
    try:
        res = sc.run()
    except sched.Deadlock as e:
        raise Violation("liveness", "deadlock", detail=dict(info, what=str(e), read_so_far=len(state["got"]),
                                                             consumed=pipe.total_read, written=pipe.total_written,
                                                             w_bounds=state["w_bounds"]), scenario=desc)
    except (sched.StepCap, sched.Stall) as e:
        raise Violation("liveness", type(e).__name__, detail=dict(info, what=str(e)), scenario=desc)
    for name in ("producer", "consumer"):
        if res[name][0] == "exc" and isinstance(res[name][1], sched.SimAbort):
            continue
        if res[name][0] != "ok":
            e = res[name][1]
            kind = "conforming-datum-rejected" if name == "producer" else "read-back-raises"
            raise Violation("roundtrip", kind, detail=dict(info, task=name, exc=jsonable(e), read_so_far=len(state["got"])), scenario=desc)
    if state["r_bounds"] != state["w_bounds"]:
        raise Violation("exact-consumption", "consumed-differs-from-written",
                        detail=dict(info, consumed_after_each_read=state["r_bounds"], written_after_each_write=state["w_bounds"]), scenario=desc)
    if pipe.buf:
        raise Violation("exact-consumption", "bytes-left-in-pipe", detail=dict(info, left=len(pipe.buf)), scenario=desc)
    if set(pipe.r.ops()) - {"read"}:
        raise Violation("stream-calls", "reader-used-other-calls", detail=dict(info, ops=pipe.r.ops(), forbidden=pipe.r.forbidden), scenario=desc)
    if set(pipe.w.ops()) - {"write", "flush", "close"}:
        raise Violation("stream-calls", "writer-used-other-calls", detail=dict(info, ops=pipe.w.ops(), forbidden=pipe.w.forbidden), scenario=desc)
    _check_values(node, values, state["got"], desc, info)
    if close_probe:
        ctx.probe("close_at_boundary")
        ctx.fault("close_at_boundary")
        if state["extra"] is None or state["extra"][0] != "raised":
            raise Violation("close-at-boundary", "read-after-close-returned",
                            detail=dict(info, extra=jsonable(state["extra"])), scenario=desc)
    if any(b == a for a, b in zip([0] + state["w_bounds"], state["w_bounds"])):
        ctx.probe("zero_length_value")
    ctx.evals += k
    ctx.steps += sc.step
    ctx.fault("preempt", len(sc.switches))
    ctx.ev("pipe", state["w_bounds"])
    ctx.ev_sched("pipe", sc.signature(), sc.step)
    ctx.sample = dict(desc, **info, switches=len(sc.switches), bounds=state["w_bounds"])
    if pipe.total_written:
        ctx.key("pipe", json.dumps(desc, sort_keys=True, default=str), info["mode"], cap, sc.signature())
