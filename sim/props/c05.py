"""C05 -- the container layout interoperates both ways with an independent implementation.

Two parties on one simulated storage: fastavro at one end, refavro (independent, written
from the specification) at the other.  (1) fastavro writes, the peer parses strictly;
(2) the peer writes any layout-valid file (any block partition incl. empty blocks, header
map in several chunks, codec key absent, foreign array/map block layouts inside records),
fastavro's reader and block_reader must return its records; (3) the blocks reported by
block_reader tile the file, with boundaries taken from the peer; (4) is_avro on short,
bit-flipped and arbitrary inputs (buffers, read-only streams, real paths).
"""
import glob
import hashlib
import io
import json
import os
import shutil
import tempfile

import env
import gen
import refavro
from streams import ReadOnlySeq, TellingSeq, SimFile
from runner import Violation, jsonable
from props import common

ID = "C05"
LEVEL = "exploration"
QUICK_RUNS = 35000
SUBRUNS = 2          # two scenarios per run, one after the other in the same process (see runner.execute)
QUICK_BUDGET_S = 50.0
THOROUGH_RUNS = 10 ** 9
BATCH = 100
RULE = ("one run = one seeded exchange: (a) fastavro writes a file (C04 knobs) and the independent parser checks "
        "magic, header map, sync, every block (count, length, codec payload fully consumed by count records, same "
        "sync) and end-of-file, or (b) the independent writer produces a layout-valid file (any block partition incl. "
        "empty blocks, multi-chunk / negative-count header map, codec key absent, extra metadata, every available "
        "codec, foreign array/map layouts) read by fastavro reader and block_reader, or (c) a Java-written fixture "
        "from tests/avro-files; block tiling is checked against the peer's boundaries; plus is_avro on every cut<=6, "
        "every bit flip of the first four bytes and seeded byte strings. one evaluation = one file exchanged or one "
        "is_avro answer. non-trivial = a file with >= 1 record or an is_avro input of >= 1 byte; distinct = digest of "
        "the file / input bytes and direction")
ASSUMPTIONS = [
    "pure-Python fastavro modules only; codecs null, deflate, bzip2, xz",
    "the peer tolerates bytes after the end of the raw-deflate stream inside a block (reference inflaters do); counted as probe deflate_trailing_bytes",
    "the peer does not compare header JSON text, only the schema it parses to (via decoding the records with it)",
    "is_avro is only required to answer, not to leave the stream at a particular position",
    "fixtures whose codec is not importable (snappy) are skipped and counted",
]
COMPONENTS = {
    "real": ["fastavro writer / reader / block_reader / is_avro", "zlib/bz2/lzma", "real temp files (is_avro path form)"],
    "stub": ["SimFile / TellingSeq (tell is the simulator's)", "ReadOnlySeq"],
    "oracle": ["refavro.parse_container (strict-but-tolerant peer parser)", "refavro.write_container (foreign writer)", "refavro.value_eq / normal_eq"],
}
PROBES = ["dir_fastavro_writes", "dir_peer_writes", "fixture", "is_avro", "empty_block", "multi_chunk_header",
          "codec_key_absent", "deflate_trailing_bytes", "codec_null", "codec_deflate", "codec_bzip2", "codec_xz",
          "tiling_ge2_blocks", "is_avro_path", "is_avro_true", "is_avro_false", "foreign_block_ge64_records",
          "foreign_big_header", "profile_many_records", "profile_huge_record", "append_to_foreign_file", "append_revised_schema"]

_FIXTURES = None


def setup():
    env.load()


def fixtures():
    global _FIXTURES
    if _FIXTURES is None:
        _FIXTURES = sorted(glob.glob(os.path.join(env.REPO, "tests", "avro-files", "*.avro")))
    return _FIXTURES


def _tiling(F, data, truth, desc, info, ctx):
    f = SimFile(data, "w+b")
    recs, meta, exc, stage = common.read_blocks(lambda: F.block_reader(f))
    if exc is not None:
        raise Violation("block_reader", "layout-valid-file-rejected", detail=dict(info, exc=jsonable(exc), stage=stage), scenario=desc)
    exp = [(s, e - s, c) for (s, e, c, pl) in truth.blocks]
    if meta != exp:
        raise Violation("tiling", "blocks-do-not-tile", detail=dict(info, reported=meta[:12], expected=exp[:12],
                                                                     header_len=truth.header_len, file_len=len(data)), scenario=desc)
    # explicit statement of the tiling property (redundant with the comparison above, kept for clarity)
    pos = truth.header_len
    for off, size, n in meta:
        if off != pos:
            raise Violation("tiling", "gap-or-overlap", detail=dict(info, at=off, expected=pos), scenario=desc)
        pos += size
    if pos != len(data):
        raise Violation("tiling", "last-block-does-not-end-at-eof", detail=dict(info, end=pos, file_len=len(data)), scenario=desc)
    if len(meta) >= 2:
        ctx.probe("tiling_ge2_blocks")
    return recs


def _has_logical(schema_json):
    return "logicalType" in json.dumps(schema_json)


def run_one(ch, ctx):
    F = common.fa()
    kind = ch.weighted([4, 5, 1, 2])
    if kind == 0:
        return fastavro_writes(F, ch, ctx)
    if kind == 1:
        return peer_writes(F, ch, ctx)
    if kind == 2:
        return fixture(F, ch, ctx)
    return is_avro(F, ch, ctx)


def fastavro_writes(F, ch, ctx):
    ctx.probe("dir_fastavro_writes")
    sc = common.container_scenario(ch, max_records=12, hints=True, big=ch.chance(10), size_profiles=True)
    sc.sync_interval = common.draw_sync_interval(ch, common.encoded_sizes(sc) if sc.profile == "small" else [8], sc)
    if sc.profile != "small":
        ctx.probe("profile_" + sc.profile)
    if not sc.sync_marker:
        env.seed_entropy(ch.fork("entropy"))
    desc = sc.describe()
    info = {"direction": "fastavro->peer"}
    ctx.probe("codec_" + sc.codec)
    if sc.profile == "small" and len(sc.records) >= 2 and ch.chance(15):
        # the peer wrote the first part (codec key possibly absent, multi-chunk header), fastavro
        # appends the rest with arbitrary arguments: the result must still be one spec-conforming file
        ctx.probe("append_to_foreign_file")
        cutp = 1 + ch.draw(len(sc.records) - 1)
        first = [common.strip_hints(r, sc.node) for r in sc.records[:cutp]]
        fcodec = "null" if ch.chance(60) else sc.codec
        fbytes, _t = refavro.write_container(sc.node, sc.schema, [first], codec=fcodec, sync=ch.bytes(16), ch=ch,
                                             codec_key=(fcodec != "null") or ch.chance(40), meta=sc.metadata, layout=refavro.Layout(ch))
        fo = io.BytesIO(fbytes)
        fo.seek(0, 2)
        how = ch.draw(3)
        aschema = None if how == 0 else sc.schema
        if how == 2:
            # a later revision of the schema (same names, other definitions): the header's one decides
            aschema = common.revised_schema(ch, sc.schema)
            try:
                F.parse_schema(json.loads(json.dumps(aschema)))
                ctx.probe("append_revised_schema")
            except Exception:  # noqa
                aschema = None
        try:
            F.writer(fo, aschema, sc.records[cutp:], codec=ch.pick(common.CODECS),
                     sync_interval=sc.sync_interval, metadata={"other": "m"} if ch.draw(2) else None)
        except Exception as e:  # noqa
            raise Violation("layout", "append-to-foreign-file-raises", detail=dict(info, exc=jsonable(e)), scenario=desc)
        data = fo.getvalue()
        foreign_part = refavro.parse_container(fbytes).records   # what the peer itself stored (its own branch choices)
        info["appended_to_foreign"] = {"foreign_codec": fcodec, "first": cutp}
        sc.codec = fcodec
        sc.sync_marker = b""
    else:
        try:
            data = common.fa_file(sc)
        except Exception as e:  # noqa
            raise Violation("layout", "writer-raises", detail=dict(info, exc=jsonable(e)), scenario=desc)
    try:
        p = refavro.parse_container(data)
    except refavro.RefError as e:
        raise Violation("layout", "peer-cannot-parse", detail=dict(info, error=str(e), file=data.hex()[:800]), scenario=desc)
    except Exception as e:  # noqa
        raise Violation("layout", "peer-cannot-parse", detail=dict(info, error=repr(e), file=data.hex()[:800]), scenario=desc)
    if p.notes.get("deflate_trailing_bytes"):
        ctx.probe("deflate_trailing_bytes")
    if p.codec != sc.codec:
        raise Violation("layout", "codec-name-differs", detail=dict(info, header=p.codec), scenario=desc)
    if sc.sync_marker and p.sync != sc.sync_marker:
        raise Violation("layout", "sync-marker-differs", detail=dict(info, header=p.sync.hex()), scenario=desc)
    for k, v in (sc.metadata or {}).items():
        if k.startswith("avro."):
            continue   # reserved keys describe the file, not what the caller happened to pass
        if p.meta.get(k) != v.encode("utf-8"):
            raise Violation("layout", "metadata-differs", detail=dict(info, key=k), scenario=desc)
    if len(p.records) != len(sc.records):
        raise Violation("layout", "peer-record-count-differs", detail=dict(info, peer=len(p.records), written=len(sc.records)), scenario=desc)
    for i, (d, r) in enumerate(zip(sc.records, p.records)):
        if "appended_to_foreign" in info and i < info["appended_to_foreign"]["first"]:
            ok = refavro.value_eq(foreign_part[i], r)
        else:
            ok = refavro.normal_eq(sc.node, d, r)
        if not ok:
            raise Violation("layout", "peer-record-differs", detail=dict(info, index=i, written=jsonable(d), peer=jsonable(r)), scenario=desc)
    recs = _tiling(F, data, p, desc, info, ctx)
    if len(recs) != len(p.records) or not all(refavro.value_eq(a, b) for a, b in zip(recs, p.records)):
        raise Violation("block_reader", "records-differ-from-peer", detail=info, scenario=desc)
    ctx.evals += 1
    ctx.steps += 1
    ctx.ev("fw", hashlib.blake2b(data, digest_size=8).hexdigest())
    ctx.sample = dict(desc, **info, blocks=len(p.blocks), len=len(data))
    if sc.records:
        ctx.key("fw", hashlib.blake2b(data, digest_size=8).hexdigest())


def peer_writes(F, ch, ctx):
    ctx.probe("dir_peer_writes")
    sc = common.container_scenario(ch, max_records=12, hints=False, big=ch.chance(10), size_profiles=True)
    if sc.profile != "small":
        ctx.probe("profile_" + sc.profile)
    recs = [common.strip_hints(r, sc.node) for r in sc.records]
    blocks = []
    i = 0
    big_blocks = len(recs) > 50
    while i < len(recs):
        if ch.chance(15):
            blocks.append([])
            if ch.chance(30):
                blocks.extend([[], []])          # several consecutive empty blocks
        n = 1 + ch.draw(min(2000 if big_blocks else 5, len(recs) - i))
        blocks.append(recs[i:i + n])
        i += n
    if ch.chance(20):
        blocks.append([])
    if any(not b for b in blocks):
        ctx.probe("empty_block")
    if any(len(b) >= 64 for b in blocks):
        ctx.probe("foreign_block_ge64_records")
    codec_key = ch.chance(60)
    if not codec_key and sc.codec == "null":
        ctx.probe("codec_key_absent")
    ctx.probe("codec_" + sc.codec)
    lay = refavro.Layout(ch)
    meta = dict(sc.metadata or {})
    if ch.chance(30):
        meta["x.extra"] = "extra-välue"
    if ch.chance(6):
        # header map with many entries / a value whose length needs a 3-byte varint
        if ch.draw(2):
            for i in range(70):
                meta["k%03d" % i] = "v" * (i % 4)
        else:
            meta["x.long"] = "L" * ch.pick([8192, 70000])
        ctx.probe("foreign_big_header")
    data, truth_w = refavro.write_container(sc.node, sc.schema, blocks, codec=sc.codec, sync=ch.bytes(16),
                                            meta=meta, ch=ch, codec_key=codec_key, layout=lay)
    if truth_w["header_chunks"] > 1:
        ctx.probe("multi_chunk_header")
    desc = sc.describe()
    desc["foreign_blocks"] = [len(b) for b in blocks]
    desc["layout"] = lay.stats
    info = {"direction": "peer->fastavro", "codec_key": codec_key, "header_chunks": truth_w["header_chunks"]}
    p = refavro.parse_container(data)   # the peer's own view (sanity: it must read what it wrote)
    assert len(p.records) == len(recs)
    expected = p.records
    for rname, stream in (("reader", ReadOnlySeq(data)), ("reader-bytesio", io.BytesIO(data))):
        Y, exc, stage = common.read_all(lambda: F.reader(stream))
        if exc is not None:
            raise Violation("reader", "layout-valid-file-rejected", detail=dict(info, reader=rname, exc=jsonable(exc), stage=stage, file=data.hex()[:800]), scenario=desc)
        if len(Y) != len(expected) or not all(refavro.value_eq(a, b) for a, b in zip(Y, expected)):
            raise Violation("reader", "records-differ-from-peer", detail=dict(info, reader=rname, n=len(Y), expected=len(expected),
                                                                                got=jsonable(Y[:3]), want=jsonable(expected[:3])), scenario=desc)
    brecs = _tiling(F, data, p, desc, info, ctx)
    if len(brecs) != len(expected) or not all(refavro.value_eq(a, b) for a, b in zip(brecs, expected)):
        raise Violation("block_reader", "records-differ-from-peer", detail=info, scenario=desc)
    ctx.evals += 1
    ctx.steps += 1
    ctx.ev("pw", hashlib.blake2b(data, digest_size=8).hexdigest())
    ctx.sample = dict(desc, **info, len=len(data))
    if recs:
        ctx.key("pw", hashlib.blake2b(data, digest_size=8).hexdigest())


def fixture(F, ch, ctx):
    fx = fixtures()
    if not fx:
        return
    path = ch.pick(fx)
    name = os.path.basename(path)
    with open(path, "rb") as f:
        data = f.read()
    desc = {"fixture": name, "len": len(data)}
    info = {"direction": "java-fixture->fastavro"}
    try:
        p = refavro.parse_container(data, decode_records=False)
    except refavro.RefError as e:
        ctx.stat("fixture_peer_cannot_parse")
        return
    if p.codec not in common.CODECS:
        ctx.stat("fixture_codec_unavailable_" + p.codec)
        return
    ctx.probe("fixture")
    logical = _has_logical(p.schema)
    expected = None
    if not logical:
        try:
            expected = refavro.parse_container(data).records
        except Exception:  # noqa  (e.g. 'request' / protocol-ish schemas the peer does not model)
            ctx.stat("fixture_peer_cannot_decode")
            expected = None
    Y, exc, stage = common.read_all(lambda: F.reader(ReadOnlySeq(data)))
    if exc is not None:
        raise Violation("reader", "fixture-rejected", detail=dict(info, exc=jsonable(exc)), scenario=desc)
    total = sum(b[2] for b in p.blocks)
    if len(Y) != total:
        raise Violation("reader", "fixture-record-count", detail=dict(info, n=len(Y), expected=total), scenario=desc)
    if expected is not None and not all(refavro.value_eq(a, b) for a, b in zip(Y, expected)):
        raise Violation("reader", "fixture-records-differ", detail=info, scenario=desc)
    _tiling(F, data, p, desc, info, ctx)
    ctx.evals += 1
    ctx.steps += 1
    ctx.ev("fx", name, len(Y))
    ctx.sample = dict(desc, records=len(Y))
    ctx.key("fx", name)


def is_avro(F, ch, ctx):
    ctx.probe("is_avro")
    base_kind = ch.draw(3)
    if base_kind == 0:
        sc = common.container_scenario(ch, max_records=3)
        try:
            base = common.fa_file(sc)
        except Exception:  # noqa  (a writer problem is the other clauses' business; is_avro only needs bytes)
            base = refavro.MAGIC + ch.bytes(8)
    elif base_kind == 1:
        base = ch.bytes(ch.draw(12))
    else:
        base = refavro.MAGIC[:ch.draw(5)] + ch.bytes(ch.draw(6))
    inputs = [("whole", base)]
    for k in range(0, min(7, len(base) + 1)):
        inputs.append((f"cut{k}", base[:k]))
    for bit in range(min(4, len(base)) * 8):
        b = bytearray(base)
        b[bit // 8] ^= 1 << (bit % 8)
        inputs.append((f"flip{bit}", bytes(b)))
    inputs.append(("prefixed", b"x" + base))
    n = 0
    tmp = None
    try:
        for tag, data in inputs:
            want = data[:4] == refavro.MAGIC
            forms = [("bytesio", lambda d=data: io.BytesIO(d)), ("readonly", lambda d=data: ReadOnlySeq(d))]
            if ch.chance(15):
                if tmp is None:
                    tmp = tempfile.mkdtemp(prefix="verif-c05-")
                pth = os.path.join(tmp, f"{n}.bin")
                with open(pth, "wb") as f:
                    f.write(data)
                forms.append(("path", lambda p=pth: p))
                ctx.probe("is_avro_path")
            for fname, mk in forms:
                try:
                    got = F.is_avro(mk())
                except Exception as e:  # noqa
                    raise Violation("is_avro", "raises", detail={"input": data[:16].hex(), "len": len(data), "form": fname, "exc": jsonable(e), "case": tag}, scenario={"is_avro": tag})
                if got is not want:
                    raise Violation("is_avro", "wrong-answer", detail={"input": data[:16].hex(), "len": len(data), "form": fname, "answer": got, "expected": want, "case": tag}, scenario={"is_avro": tag})
                n += 1
                ctx.probe("is_avro_true" if want else "is_avro_false")
                ctx.fault("cut" if tag.startswith("cut") else ("flip" if tag.startswith("flip") else "none"))
            if data:
                ctx.key("ia", data[:8])
    finally:
        if tmp:
            shutil.rmtree(tmp, ignore_errors=True)
    ctx.evals += n
    ctx.steps += n
    ctx.ev("ia", base[:12].hex(), n)
    ctx.sample = {"is_avro_base": base[:16].hex(), "inputs": len(inputs)}
