"""C17 -- results depend only on arguments: no state leaks across calls, inputs intact.

One long-lived history process executes a seeded sequence of API calls over a pool of
objects built to provoke leaks (schema families that reuse type names with different
definitions, shared raw and parsed schema objects, shared named-schema dictionaries,
Writer handles, calls that fail midway).  For every checked call the *dependency slice*
(the calls that produced the objects it uses, and nothing else) is re-evaluated in a
pristine forked interpreter and the two observations must be equal; independently every
schema and datum argument is snapshotted before and after each call.
"""
import collections
import copy
import datetime
import decimal
import json

import env
import fresh
import gen
import ops
import refavro
from runner import Violation, jsonable, canon
from props import common

ID = "C17"
LEVEL = "exploration"
QUICK_RUNS = 2600
QUICK_BUDGET_S = 50.0
THOROUGH_RUNS = 10 ** 9
BATCH = 25
SHRINK_IN_FRESH_FORK = False  # not needed: run_one itself executes every history in its own fresh fork
RULE = ("one run = one seeded history of 5..60 public API calls (parse_schema into private/shared dictionaries, "
        "schemaless and container write/read with reader schemas, block_reader, Writer handles kept across calls, "
        "validate/validate_many, canonical form, fingerprint, JSON write/read, generate_one/many with explicit "
        "random seed, load_schema(_ordered), expand_schema, fullname, is_avro) over schema families that reuse "
        "type names with different definitions, including failing calls; one evaluation = one call whose "
        "dependency slice was re-evaluated in a pristine forked interpreter and compared (value, bytes on streams, "
        "exception class), plus before/after snapshots of every schema and datum argument. non-trivial = the call "
        "was preceded by at least one call outside its slice; distinct = digest of (history prefix, call)")
ASSUMPTIONS = [
    "pure-Python fastavro modules only",
    "fork of a pristine process (fastavro imported, never called) stands for a fresh interpreter; equivalence is sampled against real subprocess interpreters in the self-test",
    "not compared: exception message text, warnings, object identity; the caller-supplied named-schema dictionary and the metadata dict are exempt from the inputs-intact check as the property says",
    "Python's global random state is an explicit input of generate_* (the descriptor carries the seed)",
]
COMPONENTS = {
    "real": ["fastavro public API (all pure-Python modules)", "os.fork", "real temp directories for load_schema"],
    "stub": [],
    "oracle": ["the same call made in a pristine forked interpreter (dependency slice only)", "deep before/after snapshots of arguments"],
}
PROBES = ["same_name_different_definition", "failed_call_then_reuse", "shared_named_dict", "parsed_reused",
          "writer_handle", "append_call", "metadata_argument", "schema_edited_in_place", "endurance_history", "reader_schema_call", "unknown_reference_call", "generate_call", "load_call",
          "json_call", "slice_smaller_than_prefix"]


def setup():
    env.load()
    fresh.server()


# ------------------------------------------------------------------------ schema families
def families(ch):
    """Raw schemas that deliberately reuse the names R / E / F / ns.R with different
    definitions, plus schemas that merely *reference* such names."""
    fam = {
        "R_a": {"type": "record", "name": "R", "fields": [{"name": "a", "type": "int"}]},
        "R_b": {"type": "record", "name": "R", "fields": [{"name": "b", "type": "string"}, {"name": "l", "type": {"type": "array", "items": "int"}, "default": [1, 2]}]},
        "R_enum": {"type": "enum", "name": "R", "symbols": ["X", "Y"]},
        "R_ns": {"type": "record", "name": "R", "namespace": "ns", "fields": [{"name": "a", "type": "long"}, {"name": "m", "type": {"type": "map", "values": "int"}, "default": {"k": 1}}]},
        "E_1": {"type": "enum", "name": "E", "symbols": ["A", "B"]},
        "E_2": {"type": "enum", "name": "E", "symbols": ["B", "C", "D"], "default": "C"},
        "F_4": {"type": "fixed", "name": "F", "size": 4},
        "F_2": {"type": "fixed", "name": "F", "size": 2},
        "Outer_R": {"type": "record", "name": "Outer", "fields": [
            {"name": "r", "type": {"type": "record", "name": "R", "fields": [{"name": "z", "type": "double"}]}},
            {"name": "again", "type": ["null", "R"], "default": None}]},
        "Outer_E": {"type": "record", "name": "Outer", "fields": [
            {"name": "e", "type": {"type": "enum", "name": "E", "symbols": ["Q"]}},
            {"name": "f", "type": {"type": "fixed", "name": "F", "size": 1}}]},
        "Uses_R": {"type": "record", "name": "Uses", "fields": [{"name": "x", "type": "R"}]},
        "Uses_E": {"type": "record", "name": "UsesE", "fields": [{"name": "x", "type": ["null", "E"]}]},
        "Arr_R": {"type": "array", "items": "R"},
        "Dec_30": {"type": "bytes", "logicalType": "decimal", "precision": 30, "scale": 2},
        "Dec_3": {"type": "bytes", "logicalType": "decimal", "precision": 3, "scale": 1},
        "Rec_dec": {"type": "record", "name": "R", "fields": [{"name": "d", "type": {"type": "bytes", "logicalType": "decimal", "precision": 5, "scale": 0}},
                                                               {"name": "t", "type": {"type": "long", "logicalType": "timestamp-micros"}}]},
        "Bad_dup": {"type": "record", "name": "Dup", "fields": [{"name": "a", "type": {"type": "fixed", "name": "F", "size": 1}}, {"name": "b", "type": {"type": "fixed", "name": "F", "size": 2}}]},
        "Bad_sym": {"type": "enum", "name": "E", "symbols": ["A", "A"]},
        "UAB_1": {"type": "record", "name": "Top", "fields": [{"name": "u", "type": [
            {"type": "record", "name": "A", "fields": [{"name": "x", "type": ["null", "int"], "default": None}]},
            {"type": "record", "name": "B", "fields": [{"name": "y", "type": ["null", "int"], "default": None}]}]}]},
        "UAB_2": {"type": "record", "name": "Top", "fields": [{"name": "u", "type": [
            {"type": "record", "name": "A", "fields": [{"name": "y", "type": ["null", "int"], "default": None}]},
            {"type": "record", "name": "B", "fields": [{"name": "x", "type": ["null", "int"], "default": None}]}]}]},
        "R_nested": {"type": "record", "name": "R", "fields": [
            {"name": "grid", "type": {"type": "array", "items": {"type": "array", "items": "int"}}, "default": [[1], [2, 3]]},
            {"name": "index", "type": {"type": "map", "values": {"type": "array", "items": "int"}}, "default": {"a": [1]}},
            {"name": "inner", "type": {"type": "record", "name": "Inner", "fields": [{"name": "xs", "type": {"type": "array", "items": "int"}}]},
             "default": {"xs": [1, 2]}},
            {"name": "u", "type": [{"type": "array", "items": "string"}, "null"], "default": ["d"]}]},
        "NumU_1": ["null", "int", "long", "double"],
        "NumU_2": ["null", "int", "string"],
        "NumU_3": {"type": "record", "name": "NU", "fields": [{"name": "n", "type": ["null", "int", "long", "double"]}]},
        "Prim": "long",
        "Union": ["null", "string", {"type": "record", "name": "R", "fields": [{"name": "u", "type": "boolean"}]}],
    }
    return fam


DATA = {
    "R_a": [{"a": 1}, {"a": -5}],
    "R_b": [{"b": "x"}, {"b": "é", "l": []}, collections.defaultdict(list, {"b": "dd"}), collections.OrderedDict([("b", "od")])],
    "R_enum": ["X", "Y"],
    "R_ns": [{"a": 1 << 40}, {"a": 0, "m": {}}, collections.defaultdict(dict, {"a": 3})],
    "E_1": ["A", "B"],
    "E_2": ["C", "D"],
    "F_4": [b"abcd"],
    "F_2": [b"ab"],
    "Outer_R": [{"r": {"z": 1.5}}, {"r": {"z": -0.0}, "again": {"z": 2.0}}],
    "Outer_E": [{"e": "Q", "f": b"\x00"}],
    "Dec_30": [decimal.Decimal("1234567890123456789012345678.90")],
    "Dec_3": [decimal.Decimal("12.3")],
    "Rec_dec": [{"d": decimal.Decimal("12345"), "t": datetime.datetime(2020, 1, 2, 3, 4, 5, 6, tzinfo=datetime.timezone.utc)}],
    "UAB_1": [{"u": {"y": 7}}, {"u": {"x": 1}}, {"u": {}}, {"u": {"y": 7, "-type": "B"}}, {"u": ("A", {"x": 3})}],
    "UAB_2": [{"u": {"y": 7}}, {"u": {"x": 1}}, {"u": {}}, {"u": {"y": 7, "-type": "A"}}, {"u": ("B", {"x": 3})}],
    "R_nested": [{}, {"grid": [[9]], "u": None}],
    "NumU_1": [7, 1 << 40, 1.5, None, -(1 << 31) - 1],
    "NumU_2": [1, 1 << 40, "s"],
    "NumU_3": [{"n": 7}, {"n": 1 << 40}, {"n": 2.5}],
    "Prim": [5, -1],
    "Union": [None, "s", {"u": True}, {"u": False, "-type": "R"}, ("R", {"u": True})],
    # reference-only schemas: data for the contexts in which they can be parsed
    "Uses_R": [{"x": {"a": 1}}, {"x": {"b": "y"}}, {"x": "X"}],
    "Uses_E": [{"x": None}, {"x": "A"}, {"x": "C"}],
    "Arr_R": [[{"a": 1}], []],
}
BAD = [{"a": "notint"}, {"zzz": 1}, 12345678901234567890123, "NOPE", None, [1, 2], {"r": {"z": "x"}}]


def snapshot(o, named=False):
    """Deep snapshot of a schema / datum argument.  For parse calls the named-schema dictionary a parsed
    schema points to is exempt (it is the caller-supplied dictionary being filled); for every other call
    (named=True) the table of a parsed schema handed in is part of the argument: its names and definitions
    must come out unchanged."""
    def strip(x, top=False):
        if isinstance(x, dict):
            out = {k: strip(v) for k, v in x.items() if k != "__named_schemas"}
            if named and top and isinstance(x.get("__named_schemas"), dict):
                out["__named_schemas"] = {k: strip(v) for k, v in sorted(x["__named_schemas"].items())}
            return out
        if isinstance(x, list):
            return [strip(v) for v in x]
        if isinstance(x, tuple):
            return tuple(strip(v) for v in x)
        return x
    return json.dumps(canon(strip(o, top=True)), default=str)


class History:
    def __init__(self, ch, ctx):
        self.ch = ch
        self.ctx = ctx
        self.base = {}        # base objects (raw schemas, data, empty dicts): the slice's starting env
        self.E = {}           # live environment of the history process
        self.descs = []       # [(desc, uses, defines)]
        self.n = 0
        self.parsed = []      # (name, family key, into)
        self.bytes_ = []      # (name, family key, kind: 's' | 'c')
        self.texts = []       # (name, family key)
        self.handles = []     # (name, family key)
        self.dicts = []
        self.tmpdir = None
        self.fam = families(ch)
        self.keys = sorted(self.fam)
        for k in self.keys:
            self.base["S_" + k] = self.fam[k]
            for i, d in enumerate(DATA.get(k, [])):
                self.base[f"D_{k}_{i}"] = d
        for i, b in enumerate(BAD):
            self.base[f"BAD_{i}"] = b
        for i in range(3):
            self.base[f"NS{i}"] = {}
            self.dicts.append(f"NS{i}")
        # user metadata dictionaries handed to container writers (one carries another file's reserved keys)
        self.base["M0"] = {"owner": "history"}
        self.base["M1"] = {"k": "v", "avro.codec": "bzip2", "avro.schema": "\"string\""}
        # a few generated schemas with data
        for i in range(2):
            s, _ = gen.schema(ch, max_depth=2, max_fields=3, recursion=False)
            node = refavro.resolve(s)
            dg = gen.DataGen(ch, max_len=2, big_collections=False, tuples=False)
            key = f"G{i}"
            self.fam[key] = s
            self.keys.append(key)
            self.base["S_" + key] = s
            DATA_local = [dg.datum(node) for _ in range(2)]
            for j, d in enumerate(DATA_local):
                self.base[f"D_{key}_{j}"] = d
            self.gen_data = getattr(self, "gen_data", {})
            self.gen_data[key] = len(DATA_local)
        self.E = copy.deepcopy(self.base)
        # swarm: each history concentrates on one group of schemas that clash on a type name
        groups = [["R_a", "R_b", "R_enum", "R_ns", "Outer_R", "Uses_R", "Arr_R", "Rec_dec", "Union", "R_nested"],
                  ["E_1", "E_2", "Outer_E", "Uses_E", "Bad_sym"], ["F_4", "F_2", "Outer_E", "Bad_dup"],
                  ["UAB_1", "UAB_2"], ["Dec_30", "Dec_3", "Rec_dec"], ["NumU_1", "NumU_2", "NumU_3"], list(self.keys)]
        self.focus = ch.pick(groups)
        self.focus_pct = ch.pick([0, 60, 90])
        # swarm: every history has its own operation mix (some kinds switched off, some tripled)
        base_w = [6, 5, 4, 3, 3, 2, 3, 2, 2, 2, 2, 4, 1, 1, 3, 2]
        self.weights = [max(1 if i < 2 else 0, w * ch.pick([0, 1, 1, 3])) for i, w in enumerate(base_w)]
        if self.focus == ["UAB_1", "UAB_2"]:
            self.weights[11] = max(self.weights[11], 12)   # Writer handles: where a shared default options dict would show
            self.weights[4] = max(self.weights[4], 6)

    def pick_key(self):
        if self.ch.chance(self.focus_pct):
            return self.ch.pick(self.focus)
        return self.ch.pick(self.keys)

    DIR_FILES = {
        "LC": {"type": "record", "name": "LC", "fields": [{"name": "v", "type": "int"}]},
        "LB": {"type": "record", "name": "LB", "fields": [{"name": "c", "type": "LC"}]},
        "LA": {"type": "record", "name": "LA", "fields": [{"name": "c", "type": "LC"}, {"name": "b", "type": "LB"}]},
        "LE": {"type": "enum", "name": "LE", "symbols": ["P", "Q"]},
        "LTop": {"type": "record", "name": "LTop", "fields": [{"name": "b", "type": ["null", "LB"]}, {"name": "e", "type": "LE"}, {"name": "c", "type": {"type": "array", "items": "LC"}}]},
        "LMissing": {"type": "record", "name": "LMissing", "fields": [{"name": "n", "type": "LNope"}]},
    }

    def schema_dir(self):
        """A directory of per-type schema files that lives for the whole history (removed by
        run_one); the fresh evaluations read the same files."""
        if self.tmpdir is None:
            import os
            import tempfile
            self.tmpdir = tempfile.mkdtemp(prefix="verif-c17-")
            for name, sch in self.DIR_FILES.items():
                with open(os.path.join(self.tmpdir, name + ".avsc"), "w") as f:
                    json.dump(sch, f)
        return self.tmpdir

    def new(self, prefix):
        self.n += 1
        return f"{prefix}{self.n}"

    def data_names(self, key):
        n = len(DATA.get(key, [])) or getattr(self, "gen_data", {}).get(key, 0)
        return [f"D_{key}_{i}" for i in range(n)]

    # -- choose a schema reference: raw name or a parsed object --------------------------
    def schema_ref(self, key=None):
        ch = self.ch
        if key is None:
            key = self.pick_key()
        cands = [p for p in self.parsed if p[1] == key]
        if cands and ch.chance(50):
            self.ctx.probe("parsed_reused")
            return ch.pick(cands)[0], key
        return "S_" + key, key

    def next_desc(self):
        ch = self.ch
        k = ch.weighted(self.weights)
        key = self.pick_key()
        if k == 0:
            into = ch.pick(self.dicts) if ch.chance(50) else None
            if into:
                self.ctx.probe("shared_named_dict")
            out = self.new("P")
            d = {"op": "parse", "schema": "S_" + key, "into": into, "out": out}
            if ch.chance(10):
                d["expand"] = True
                d["out"] = None
            else:
                self.parsed.append((out, key, into))
            return d
        if k == 1:
            sref, key = self.schema_ref()
            dn = self.data_names(key)
            datum = ch.pick(dn) if dn and not ch.chance(20) else f"BAD_{ch.draw(len(BAD))}"
            out = self.new("B")
            self.bytes_.append((out, key, "s", sref))
            d = {"op": "swrite", "schema": sref, "datum": datum, "out": out}
            if ch.chance(25):
                d["opts"] = ch.pick([{"strict": True}, {"strict_allow_default": True}, {"disable_tuple_notation": True}])
            return d
        if k == 2 and self.bytes_:
            cands = [b for b in self.bytes_ if b[2] == "s"]
            if cands:
                b = ch.pick(cands)
                sref = b[3] if ch.chance(70) else self.schema_ref()[0]
                d = {"op": "sread", "schema": sref, "bytes": b[0]}
                if ch.chance(30):
                    d["reader"] = self.schema_ref()[0]
                    self.ctx.probe("reader_schema_call")
                if ch.chance(25):
                    d["opts"] = ch.pick(READ_OPTS)
                return d
        if k == 3:
            sref, key = self.schema_ref()
            dn = self.data_names(key)
            recs = [ch.pick(dn) for _ in range(ch.draw(4))] if dn else []
            if ch.chance(25):
                recs.insert(ch.draw(len(recs) + 1), f"BAD_{ch.draw(len(BAD))}")   # fails midway
            rname = self.new("RL")
            self.base[rname] = [self.base[r] for r in recs]
            self.E[rname] = copy.deepcopy(self.base[rname])
            out = self.new("C")
            self.bytes_.append((out, key, "c", sref))
            opts = {"codec": ch.pick(["null", "deflate", "bzip2", "nosuchcodec"] if ch.chance(10) else ["null", "deflate"]),
                    "sync_interval": ch.pick([1, 30, 16000]), "sync_marker": b"\x01" * 16}
            if ch.chance(20):
                opts["validator"] = True
            d = {"op": "cwrite", "schema": sref, "records": rname, "out": out, "opts": opts}
            if ch.chance(30):
                d["meta"] = ch.pick(["M0", "M1"])
                self.ctx.probe("metadata_argument")
            return d
        if k == 4 and self.bytes_:
            cands = [b for b in self.bytes_ if b[2] == "c"]
            if cands:
                b = ch.pick(cands)
                d = {"op": ch.pick(["cread", "cread", "bread", "is_avro"]), "bytes": b[0]}
                if d["op"] == "cread" and ch.chance(40):
                    d["opts"] = ch.pick(READ_OPTS)
                if d["op"] == "cread" and ch.chance(30):
                    d["reader"] = self.schema_ref()[0]
                    self.ctx.probe("reader_schema_call")
                return d
        if k == 5:
            sref, key = self.schema_ref()
            dn = self.data_names(key)
            datum = ch.pick(dn) if dn and not ch.chance(30) else f"BAD_{ch.draw(len(BAD))}"
            return {"op": "validate", "schema": sref, "datum": datum,
                    "opts": {"raise_errors": bool(ch.draw(2)), "strict": bool(ch.draw(2))}}
        if k == 6:
            sref, key = self.schema_ref()
            return {"op": ch.pick(["canon", "canon", "expand", "fullname"]), "schema": sref}
        if k == 7:
            sref, key = self.schema_ref()
            return {"op": "fingerprint", "schema": sref, "algo": ch.pick(["CRC-64-AVRO", "md5", "SHA-256", "sha1", "nosuchalgo"])}
        if k == 8:
            sref, key = self.schema_ref()
            dn = self.data_names(key)
            recs = [ch.pick(dn) for _ in range(ch.draw(3))] if dn else []
            rname = self.new("RL")
            self.base[rname] = [self.base[r] for r in recs]
            self.E[rname] = copy.deepcopy(self.base[rname])
            out = self.new("J")
            self.texts.append((out, key, sref))
            self.ctx.probe("json_call")
            d = {"op": "jwrite", "schema": sref, "records": rname, "out": out}
            if ch.chance(25):
                d["opts"] = ch.pick([{"write_union_type": False}, {"validator": True}, {"strict": True}])
            return d
        if k == 9 and ch.chance(35):
            # hand-written JSON with fields absent: the reader must fill schema defaults
            self.ctx.probe("json_call")
            key2 = ch.pick(["R_b", "R_ns", "Outer_R", "R_nested"])
            texts = {"R_nested": ['{}', '{"grid": [[5]]}', '{"u": null}'], "R_b": ['{"b": "x"}', '{"b": "y", "l": [7]}'], "R_ns": ['{"a": 1}', '{"a": 2, "m": {"q": 3}}'],
                     "Outer_R": ['{"r": {"z": 1.0}}', '{"r": {"z": 1.0}, "again": null}']}
            tname = self.new("JT")
            self.base[tname] = "\n".join(ch.pick(texts[key2]) for _ in range(1 + ch.draw(3)))
            self.E[tname] = self.base[tname]
            return {"op": "jread", "schema": self.schema_ref(key2)[0], "text": tname}
        if k == 9 and self.texts:
            t = ch.pick(self.texts)
            self.ctx.probe("json_call")
            d = {"op": "jread", "schema": t[2] if ch.chance(70) else self.schema_ref()[0], "text": t[0]}
            if ch.chance(20):
                d["reader"] = self.schema_ref()[0]
                self.ctx.probe("reader_schema_call")
            return d
        if k == 10:
            sref, key = self.schema_ref()
            self.ctx.probe("generate_call")
            return {"op": "generate", "schema": sref, "n": ch.pick([None, 0, 1, 3]), "seed": ch.draw(1000)}
        if k == 11:
            # Writer handle kept across calls
            if self.handles and ch.chance(70):
                h = ch.pick(self.handles)
                dn = self.data_names(h[1])
                if ch.chance(70) and dn:
                    datum = ch.pick(dn) if not ch.chance(25) else f"BAD_{ch.draw(len(BAD))}"
                    return {"op": "writer_handle", "action": "write", "handle": h[0], "datum": datum}
                return {"op": "writer_handle", "action": "flush", "handle": h[0]}
            sref, key = self.schema_ref()
            out = self.new("W")
            self.handles.append((out, key))
            self.ctx.probe("writer_handle")
            d = {"op": "writer_handle", "action": "create", "schema": sref, "out": out,
                 "opts": {"sync_marker": b"\x02" * 16, "sync_interval": ch.pick([1, 16000]), "codec": ch.pick(["null", "deflate"])}}
            if ch.chance(30):
                d["meta"] = ch.pick(["M0", "M1"])
                self.ctx.probe("metadata_argument")
            return d
        if k == 12:
            self.ctx.probe("load_call")
            if ch.chance(60):
                # one directory that lives for the whole history: several loads see the same files
                top = ch.pick(["LA", "LB", "LC", "LTop", "LMissing"])
                d = {"op": "load_dir", "dir": self.schema_dir(), "top": top}
                if ch.chance(25):
                    d["ordered"] = ch.pick([["LC", "LB", "LA"], ["LC", "LB"], ["LE", "LC", "LB", "LTop"]])
                return d
            files = {"Top": {"type": "record", "name": "Top", "fields": [{"name": "c", "type": "Child"}, {"name": "e", "type": "E"}]},
                     "Child": {"type": "record", "name": "Child", "fields": [{"name": "e", "type": "E"}]},
                     "E": ch.pick([self.fam["E_1"], self.fam["E_2"]])}
            if ch.chance(20):
                del files["Child"]
            d = {"op": "load", "files": files, "top": "Top"}
            if ch.chance(30) and "Child" in files:
                d["ordered"] = ["E", "Child", "Top"]
            return d
        if k == 13:
            sref, key = self.schema_ref()
            dn = self.data_names(key)
            recs = [ch.pick(dn) for _ in range(ch.draw(3))] if dn else []
            if ch.chance(30):
                recs.append(f"BAD_{ch.draw(len(BAD))}")
            rname = self.new("RL")
            self.base[rname] = [self.base[r] for r in recs]
            self.E[rname] = copy.deepcopy(self.base[rname])
            return {"op": "validate_many", "schema": sref, "records": rname, "opts": {"raise_errors": bool(ch.draw(2))}}
        if k == 14:
            cands = [b for b in self.bytes_ if b[2] == "c"]
            if cands:
                # append to a file written earlier, handing over whichever schema the caller has around
                # (the header's schema decides; the argument must come out of the call unchanged)
                b = ch.pick(cands)
                sref = b[3] if ch.chance(25) else self.schema_ref()[0]
                dn = self.data_names(b[1])
                recs = [ch.pick(dn) for _ in range(ch.draw(3))] if dn else []
                rname = self.new("RL")
                self.base[rname] = [self.base[r] for r in recs]
                self.E[rname] = copy.deepcopy(self.base[rname])
                out = self.new("C")
                self.bytes_.append((out, b[1], "c", b[3]))
                self.ctx.probe("append_call")
                d = {"op": "cappend", "bytes": b[0], "schema": sref, "records": rname, "out": out,
                     "opts": {"codec": ch.pick(["null", "deflate"]), "sync_interval": ch.pick([1, 16000])}}
                if ch.chance(30):
                    d["meta"] = ch.pick(["M0", "M1"])
                    self.ctx.probe("metadata_argument")
                return d
        if k == 15:
            # the caller edits one of its raw schema objects in place (adds a defaulted field / a symbol /
            # a branch): later calls must see the schema as it is now, not a remembered earlier shape
            self.ctx.probe("schema_edited_in_place")
            return {"op": "edit", "target": "S_" + key, "tag": self.new("e")}
        # fallback: parse
        out = self.new("P")
        self.parsed.append((out, key, None))
        return {"op": "parse", "schema": "S_" + key, "out": out}


READ_OPTS = [{"return_record_name": True}, {"return_record_name": True, "return_record_name_override": True},
             {"return_named_type": True}, {"return_named_type": True, "return_named_type_override": True},
             {"handle_unicode_errors": "ignore"}]

REF_KEYS = ("schema", "datum", "records", "bytes", "reader", "text", "handle", "into", "meta", "target")


def uses_of(d):
    out = []
    for k in REF_KEYS:
        v = d.get(k)
        if isinstance(v, str):
            out.append(v)
    if d.get("handle"):
        out.append(d["handle"] + ".fo")
    return out


def defines_of(d):
    out = []
    if d.get("out"):
        out.append(d["out"])
        if d["op"] == "writer_handle":
            out.append(d["out"] + ".fo")
    if d.get("into"):
        out.append(d["into"])
    if d["op"] == "edit":
        out.append(d["target"])
    if d["op"] == "writer_handle" and d.get("handle"):
        out.append(d["handle"])
        out.append(d["handle"] + ".fo")
    return out


def slice_of(descs, k, parsed_into):
    """Indices of the calls the k-th call depends on (transitively), in order.  Computed to a fixed
    point: a caller-side edit of a raw schema object made AFTER that object was parsed still belongs
    to the slice of calls using the parsed result (parse_schema may share lists with its input)."""
    need = set(uses_of(descs[k]))

    def close():
        changed = True
        while changed:
            changed = False
            for n in list(need):
                d = parsed_into.get(n)
                if d and d not in need:
                    need.add(d)
                    changed = True

    close()
    idx = set()
    again = True
    while again:
        again = False
        for i in range(k - 1, -1, -1):
            if i in idx:
                continue
            if any(x in need for x in defines_of(descs[i])):
                idx.add(i)
                again = True
                for u in uses_of(descs[i]):
                    need.add(u)
                close()
    return sorted(idx)


def run_one(ch, ctx):
    srv = fresh.server()
    F = None   # this process never calls fastavro for C17: history and oracle both run in fresh forks
    H = History(ch, ctx)
    try:
        _run(ch, ctx, srv, F, H)
    finally:
        if H.tmpdir:
            import shutil
            shutil.rmtree(H.tmpdir, ignore_errors=True)


def _full_history_job(base, descs):
    """(in a fresh fork of the pristine server) the long-lived *history process*: executes
    every call in order; returns all observations and the first argument modification."""
    import copy as _copy
    F = common.fa()
    E = _copy.deepcopy(base)
    obs = []
    tampered = None
    for i, d in enumerate(descs):
        watch = [n for n in (d.get("schema"), d.get("datum"), d.get("records"), d.get("reader"), d.get("meta")) if isinstance(n, str) and n in E]
        nm = d["op"] != "parse"
        before = {n: snapshot(E[n], nm) for n in watch}
        obs.append(ops.apply(F, d, E))
        for n in watch:
            if snapshot(E[n], nm) != before[n] and tampered is None:
                tampered = (i, n, json.loads(snapshot(E[n], nm)))   # (a parsed schema is cyclic through its table)
    return obs, tampered


def _run(ch, ctx, srv, F, H):
    n_calls = 5 + ch.draw(56 if ctx.tier == "thorough" else 30)
    ch.mark_count()
    descs = []
    endurance = ch.chance(8)
    if endurance:
        # endurance history: hundreds of cheap calls with their own short-lived schemas in front of and between
        # the ordinary ones (capacity-bound caches, id() re-use after garbage collection, counters that leak on
        # the error path); one kind of traffic dominates per history
        ctx.probe("endurance_history")
        n_churn = ch.pick([300, 600, 1200] if ctx.tier == "quick" else [600, 1200, 3000])
        kinds = ["ok", "reject", "badschema", "strict", "resolve"]
        dom = ch.pick(kinds)
        ctx.probe("endurance_" + dom)
        positions = sorted(ch.draw(n_churn + 1) for _ in range(n_calls))
        nxt = 0
        for j in range(n_churn + 1):
            while nxt < len(positions) and positions[nxt] == j:
                ch.mark()
                descs.append(H.next_desc())
                nxt += 1
            if j < n_churn:
                descs.append({"op": "churn", "i": j, "kind": dom if ch.chance(60) else ch.pick(kinds)})
        n_calls = len(descs)
    else:
        for _ in range(n_calls):
            ch.mark()
            descs.append(H.next_desc())
    parsed_into = {d["out"]: d["into"] for d in descs if d["op"] == "parse" and d.get("out") and d.get("into")}
    # The history runs in its OWN fresh process (one fork per run), never in this worker:
    # state leaked by earlier runs of the worker would make a violation irreproducible
    # from this run's choices alone.
    obs, tampered3 = srv.call("props.c17", "_full_history_job", (H.base, descs))
    tampered = None
    now_value = None
    if tampered3 is not None:
        tampered = (tampered3[0], tampered3[1])
        now_value = tampered3[2]
    for i, o in enumerate(obs[:80]):
        ctx.ev("call", i, json.dumps(o, sort_keys=True, default=str)[:300])
    desc = {"history": [ops.describe(x) for x in descs]}
    if tampered is not None:
        i, n = tampered
        raise Violation("inputs-intact", "argument-modified",
                        detail={"call_index": i, "call": ops.describe(descs[i]), "argument": n,
                                "now": now_value, "was": jsonable(H.base.get(n))},
                        scenario={"history": [ops.describe(x) for x in descs[:i + 1]]})
    # which calls to check: all in quick histories, a seeded sample of <= 24 in long ones
    idx = list(range(n_calls))
    if endurance:
        # the ordinary calls, the last churn calls (the most history behind them) and a seeded sample
        ordinary = [i for i, d in enumerate(descs) if d["op"] != "churn"]
        churn = [i for i, d in enumerate(descs) if d["op"] == "churn"]
        idx = sorted(set(ordinary[-12:]) | set(churn[-6:]) | {churn[ch.draw(len(churn))] for _ in range(6)})
    elif n_calls > 24:
        idx = sorted(ch.shuffle(idx)[:24])
    failing = [i for i, o in enumerate(obs) if o["exc"]]
    for k in idx:
        sl = slice_of(descs, k, parsed_into)
        if len(sl) < k:
            ctx.probe("slice_smaller_than_prefix")
        prog = [descs[i] for i in sl] + [descs[k]]
        res = srv.evaluate(H.base, prog)
        ctx.evals += 1
        fresh_obs = res[-1]
        if fresh_obs != obs[k]:
            raise Violation("history-independence", "differs-from-fresh-interpreter",
                            detail={"call_index": k, "call": ops.describe(descs[k]), "after_history": obs[k],
                                    "fresh": fresh_obs, "slice": sl,
                                    "objects": {n: jsonable(H.base.get(n)) for n in uses_of(descs[k]) if n in H.base}},
                            scenario={"history": [ops.describe(x) for x in descs[:k + 1]]})
        if len(sl) < k:
            ctx.key(json.dumps([ops.describe(x) for x in descs[:k + 1]], sort_keys=True, default=str))
    # reach: a pair of calls touching the same type name through different definitions
    fams = [d.get("schema", "") for d in descs]
    names_seen = {}
    for s in fams:
        base = s.split("_")[1] if s.startswith("S_") and "_" in s[2:] else None
        if base:
            names_seen.setdefault(base, set()).add(s)
    if any(len(v) > 1 for v in names_seen.values()):
        ctx.probe("same_name_different_definition")
    if failing and failing[0] < n_calls - 1:
        ctx.probe("failed_call_then_reuse")
    if any(d.get("schema") in ("S_Uses_R", "S_Uses_E", "S_Arr_R") for d in descs):
        ctx.probe("unknown_reference_call")
    ctx.steps += n_calls
    ctx.stat("calls", n_calls)
    ctx.stat("failing_calls", len(failing))
    ctx.sample = {"history": [ops.describe(x) for x in descs[:12]], "n_calls": n_calls, "checked": len(idx)}


# ------------------------------------------------------------------ history minimisation
def _history_job(base, descs):
    """(in a fresh fork) run the whole history; report the last call's observation and
    whether the last call modified one of its schema/datum arguments."""
    import copy as _copy
    F = common.fa()
    E = _copy.deepcopy(base)
    obs = None
    tampered = None
    for i, d in enumerate(descs):
        watch = [n for n in (d.get("schema"), d.get("datum"), d.get("records"), d.get("reader"), d.get("meta")) if isinstance(n, str) and n in E]
        nm = d["op"] != "parse"
        before = {n: snapshot(E[n], nm) for n in watch}
        obs = ops.apply(F, d, E)
        if i == len(descs) - 1:
            for n in watch:
                if snapshot(E[n], nm) != before[n]:
                    tampered = n
    return obs, tampered


def _still_violates(srv, base, descs):
    """Does the last call of descs still differ from its fresh-interpreter evaluation (or
    modify an argument) when the history is descs[:-1]?"""
    parsed_into = {d["out"]: d["into"] for d in descs if d["op"] == "parse" and d.get("out") and d.get("into")}
    k = len(descs) - 1
    try:
        obs, tampered = srv.call("props.c17", "_history_job", (base, descs))
        sl = slice_of(descs, k, parsed_into)
        fresh_obs = srv.evaluate(base, [descs[i] for i in sl] + [descs[k]])[-1]
    except RuntimeError:
        return None
    if tampered:
        return {"kind": "argument-modified", "argument": tampered, "obs": obs}
    if obs != fresh_obs:
        return {"kind": "differs-from-fresh-interpreter", "after_history": obs, "fresh": fresh_obs, "slice": sl}
    return None


def refine(recorded):
    """Specialised history minimisation, run once on the minimised choice list: delete calls
    from the history (delta debugging over call descriptors, each candidate executed in a
    fresh fork) while the LAST call still differs from its fresh evaluation or still
    modifies an argument."""
    from choices import Choices
    import runner
    srv = fresh.server()
    ch = Choices(recorded=recorded)
    ctx = runner.RunCtx("quick")
    H = History(ch, ctx)
    try:
        n_calls = 5 + ch.draw(30)
        descs = [H.next_desc() for _ in range(n_calls)]
        # find the first violating call
        target = None
        for k in range(len(descs)):
            if _still_violates(srv, H.base, descs[:k + 1]):
                target = k
                break
        if target is None:
            return {"history_minimisation": "not reproduced call by call"}
        cur = descs[:target + 1]
        tries = 0
        chunk = max(1, (len(cur) - 1) // 2)
        while chunk >= 1 and tries < 400:
            i = 0
            progressed = False
            while i < len(cur) - 1 and tries < 400:
                cand = cur[:i] + cur[i + chunk:-1] + [cur[-1]] if i + chunk < len(cur) - 1 else cur[:i] + [cur[-1]]
                if len(cand) < len(cur):
                    tries += 1
                    if _still_violates(srv, H.base, cand):
                        cur = cand
                        progressed = True
                        continue
                i += max(1, chunk // 2) if chunk > 1 else 1
            if not progressed or chunk == 1:
                chunk //= 2
        final = _still_violates(srv, H.base, cur)
        used = set()
        for d in cur:
            used.update(uses_of(d))
        return {"minimised_history": {
            "calls": [ops.describe(d) for d in cur], "original_calls": target + 1, "tries": tries,
            "verdict": jsonable(final),
            "objects": {n: jsonable(H.base[n]) for n in sorted(used) if n in H.base}}}
    finally:
        if H.tmpdir:
            import shutil
            shutil.rmtree(H.tmpdir, ignore_errors=True)
