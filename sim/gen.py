"""Workload generators: pure functions of a Choices object.

Soundness rule: stay inside the domain the property states (valid schemas, conforming
data whose normal form is unambiguous).  See DESIGN.md 3.5 and the per-property guards.
"""
import array
import collections
import math
import struct
import types

import refavro

NAMESPACES = ["", "ns1", "ns1.sub", "other"]
SYMS = ["A", "B", "C", "D_4", "_e", "F"]
PRIM_KINDS = ["null", "boolean", "int", "long", "float", "double", "bytes", "string"]

DEFAULT_PROFILE = dict(
    max_depth=3,
    top="any",            # "any" | "record"
    refs=True,            # by-name references to earlier definitions
    recursion=True,       # self reference through nullable union / array / map
    defaults=True,        # fields with defaults (not bytes/fixed: known finding C01)
    bytes_defaults=False,
    namespaces=True,
    max_fields=5,
    logical=False,
    serial_field=False,   # first field "serial": long (unique per record)
    wide=True,            # occasionally: enums / unions with >= 64 entries, fixed types beyond 8 KiB / 64 KiB
)


class SchemaGen:
    def __init__(self, ch, **profile):
        self.ch = ch
        self.p = dict(DEFAULT_PROFILE)
        self.p.update(profile)
        self.defined = []   # (fullname, namespace, kind) fully usable for references
        self.open = []      # (fullname, namespace) records under construction
        self.n = 0
        self.stats = {"refs": 0, "recursive": 0, "defaults": 0, "named": 0, "unions": 0}

    # -- naming -----------------------------------------------------------------
    def _new_name(self, kind, ns):
        """Returns (json-attrs, fullname, namespace-of-the-type)."""
        ch = self.ch
        base = {"record": "R", "enum": "E", "fixed": "F"}[kind] + str(self.n)
        self.n += 1
        self.stats["named"] += 1
        if not self.p["namespaces"]:
            return {"name": base}, (ns + "." + base if ns else base), ns
        if self.p.get("short_name_clash", True) and (self.defined or self.open) and ch.chance(12):
            # reuse the SHORT name of an existing type in another namespace (legal: full names differ)
            pool = [f for (f, _t, _k) in self.defined] + [f for (f, _t) in self.open]
            short = ch.pick(pool).rsplit(".", 1)[-1]
            taken = set(pool)
            for tns in ch.shuffle(NAMESPACES):
                full = tns + "." + short if tns else short
                if full not in taken:
                    self.stats["short_name_clash"] = self.stats.get("short_name_clash", 0) + 1
                    if tns and ch.draw(2):
                        return {"name": full}, full, tns
                    return {"name": short, "namespace": tns}, full, tns
        how = ch.draw(4)
        if how == 0:
            # inherit the enclosing namespace
            return {"name": base}, (ns + "." + base if ns else base), ns
        tns = ch.pick(NAMESPACES)
        if how == 1:
            # explicit namespace attribute (possibly "", which means null namespace)
            attrs = {"name": base, "namespace": tns}
            return attrs, (tns + "." + base if tns else base), tns
        if how == 2 and tns:
            # dotted name (wins over any namespace attribute)
            attrs = {"name": tns + "." + base}
            if ch.chance(30):
                attrs["namespace"] = ch.pick(NAMESPACES)
            return attrs, tns + "." + base, tns
        return {"name": base}, (ns + "." + base if ns else base), ns

    def _ref_spelling(self, full, tns, ns):
        """A spelling of full name ``full`` that resolves correctly from namespace ns."""
        if "." not in full:
            # null-namespace type: only nameable from the null namespace
            return full if ns == "" else None
        if tns == ns and self.ch.chance(50):
            return full.rsplit(".", 1)[1]
        return full

    # -- types --------------------------------------------------------------------
    def top(self):
        if self.p["top"] == "record":
            return self.record("", 0)
        k = self.ch.weighted([6, 2, 1, 1, 1, 1, 1])
        if k == 0:
            return self.record("", 0)
        if k == 1:
            return self.prim()
        if k == 2:
            return {"type": "array", "items": self.type(1, "")}
        if k == 3:
            return {"type": "map", "values": self.type(1, "")}
        if k == 4:
            return self.union(1, "")
        if k == 5:
            return self.enum("")
        return self.fixed("")

    LOGICALS = [("int", "date"), ("int", "time-millis"), ("long", "time-micros"), ("long", "timestamp-millis"),
                ("long", "timestamp-micros"), ("long", "local-timestamp-millis"), ("long", "local-timestamp-micros"),
                ("string", "uuid"), ("bytes", "decimal"), ("fixed", "decimal")]

    def logical_type(self, ns):
        base, lt = self.ch.pick(self.LOGICALS)
        if lt != "decimal":
            return {"type": base, "logicalType": lt}
        prec = 1 + self.ch.draw(20) if self.ch.draw(3) else self.ch.pick([28, 29, 30, 31, 38])
        scale = self.ch.draw(min(prec, 6) + 1)
        if base == "bytes":
            return {"type": "bytes", "logicalType": "decimal", "precision": prec, "scale": scale}
        attrs, full, tns = self._new_name("fixed", ns)
        size = 1
        while int((8 * size - 1) * 0.30102999566398114) < prec:
            size += 1
        s = dict(type="fixed", size=size + self.ch.draw(2), logicalType="decimal", precision=prec, scale=scale, **attrs)
        self.defined.append((full, tns, "fixed"))
        return s

    def prim(self, kinds=PRIM_KINDS, ns=""):
        if self.p["logical"] and self.ch.chance(25):
            self.stats["logical"] = self.stats.get("logical", 0) + 1
            return self.logical_type(ns)
        k = self.ch.pick(kinds)
        if self.ch.chance(15):
            return {"type": k}
        return k

    def enum(self, ns):
        attrs, full, tns = self._new_name("enum", ns)
        nsym = 1 + self.ch.draw(len(SYMS))
        syms = SYMS[:nsym]
        if self.p["wide"] and self.ch.chance(3):
            # wide enum: symbol positions whose zig-zag varint needs two bytes (>= 64) and more
            syms = ["W%d" % i for i in range(self.ch.pick([64, 65, 128, 129, 200]))]
            self.stats["wide_enum"] = self.stats.get("wide_enum", 0) + 1
        s = dict(type="enum", symbols=syms, **attrs)
        self.defined.append((full, tns, "enum"))
        return s

    def fixed(self, ns):
        attrs, full, tns = self._new_name("fixed", ns)
        size = self.ch.pick([1, 0, 2, 4, 16, 3])
        if self.p["wide"] and self.ch.chance(2):
            size = self.ch.pick([8192, 8193, 10000, 70001])   # beyond one I/O chunk / 64 KiB
            self.stats["large_fixed"] = self.stats.get("large_fixed", 0) + 1
        s = dict(type="fixed", size=size, **attrs)
        self.defined.append((full, tns, "fixed"))
        return s

    def record(self, ns, depth):
        ch = self.ch
        attrs, full, tns = self._new_name("record", ns)
        self.open.append((full, tns))
        fields = []
        if self.p["serial_field"] and depth == 0:
            fields.append({"name": "serial", "type": "long"})
            nf = ch.draw(self.p["max_fields"])
        else:
            nf = ch.draw(self.p["max_fields"] + 1)
        for i in range(nf):
            ft = self.type(depth + 1, tns)
            f = {"name": f"f{i}", "type": ft}
            if self.p["defaults"] and ch.chance(30):
                ok, dv = self.default_for(ft, tns)
                if ok:
                    f["default"] = dv
                    self.stats["defaults"] += 1
            fields.append(f)
        self.open.pop()
        s = dict(type="record", fields=fields, **attrs)
        if ch.chance(10):
            s["doc"] = "d"
        self.defined.append((full, tns, "record"))
        return s

    def union(self, depth, ns):
        ch = self.ch
        self.stats["unions"] += 1
        nb = 1 + ch.draw(4)
        kinds = ch.shuffle(PRIM_KINDS + ["array", "map", "named", "named", "ref"])[:nb]
        if ch.chance(50) and "null" not in kinds:
            kinds[0] = "null"
        out = []
        seen_named = set()
        for k in kinds:
            if k in PRIM_KINDS:
                out.append({"type": k} if ch.chance(15) else k)
            elif k == "array":
                out.append({"type": "array", "items": self.type(depth + 1, ns, in_union=True)})
            elif k == "map":
                out.append({"type": "map", "values": self.type(depth + 1, ns, in_union=True)})
            elif k == "named":
                out.append(self.named(depth, ns))
            else:
                r = self.ref(ns, exclude=seen_named)
                if r is not None:
                    out.append(r[0])
                    seen_named.add(r[1])
        if not out:
            out = ["null"]
        if self.p["wide"] and ch.chance(2) and depth <= 1:
            # wide union: branch positions >= 64 (two-byte index); each extra branch is a tiny record told
            # apart by its only field name
            self.stats["wide_union"] = self.stats.get("wide_union", 0) + 1
            for _ in range(ch.pick([62, 70, 130])):
                attrs, full, tns = self._new_name("record", ns)
                out.append(dict(type="record", fields=[{"name": "w_" + attrs["name"].replace(".", "_"), "type": "int"}], **attrs))
                self.defined.append((full, tns, "record"))
        return out

    def named(self, depth, ns):
        k = self.ch.weighted([3, 2, 2])
        if k == 0 and depth < self.p["max_depth"]:
            return self.record(ns, depth)
        if k == 1 or k == 0:
            return self.enum(ns)
        return self.fixed(ns)

    def ref(self, ns, exclude=()):
        """(spelling, fullname) of an already defined type, or None."""
        if not self.p["refs"] or not self.defined:
            return None
        for _ in range(3):
            full, tns, kind = self.ch.pick(self.defined)
            if full in exclude:
                continue
            sp = self._ref_spelling(full, tns, ns)
            if sp is not None:
                self.stats["refs"] += 1
                return sp, full
        return None

    def recursive_ref(self, ns):
        if not self.p["recursion"] or not self.open:
            return None
        if self.p["recursion"] == "nullable-once" and self.stats["recursive"] >= 1:
            return None
        full, tns = self.ch.pick(self.open)
        sp = self._ref_spelling(full, tns, ns)
        if sp is None:
            return None
        self.stats["recursive"] += 1
        how = 0 if self.p["recursion"] == "nullable-once" else self.ch.draw(3)
        if how == 0:
            return ["null", sp]
        if how == 1:
            return {"type": "array", "items": sp}
        return {"type": "map", "values": sp}

    def type(self, depth, ns, in_union=False):
        ch = self.ch
        if depth >= self.p["max_depth"]:
            w = [10, 0, 0, 0, 2, 2, 0]
        else:
            w = [8, 3, 2, 3, 3, 3, 2]
        if in_union:
            w[3] = 0
        k = ch.weighted(w)
        if k == 0:
            return self.prim(ns=ns)
        if k == 1:
            return {"type": "array", "items": self.type(depth + 1, ns)}
        if k == 2:
            return {"type": "map", "values": self.type(depth + 1, ns)}
        if k == 3:
            return self.union(depth, ns)
        if k == 4:
            return self.named(depth, ns)
        if k == 5:
            r = self.ref(ns)
            return r[0] if r is not None else self.prim(ns=ns)
        r = self.recursive_ref(ns)
        if r is None:
            return self.prim(ns=ns)
        if in_union and isinstance(r, list):
            return self.prim(ns=ns)
        return r

    # -- defaults -------------------------------------------------------------------
    def default_for(self, t, ns):
        """(ok, json default) for a field of JSON type t; only spec-valid defaults whose
        normal form is unambiguous."""
        ch = self.ch
        if isinstance(t, list):
            return self.default_for(t[0], ns)
        if isinstance(t, dict):
            k = t["type"]
            if "logicalType" in t:
                return False, None
            if k == "array":
                return True, []
            if k == "map":
                return True, {}
            if k == "enum":
                return True, t["symbols"][ch.draw(len(t["symbols"]))]
            if k == "fixed":
                if self.p["bytes_defaults"]:
                    return True, "ÿ" * t["size"]
                return False, None
            if k == "record":
                return False, None
            return self.default_for(k, ns)
        if t == "null":
            return True, None
        if t == "boolean":
            return True, bool(ch.draw(2))
        if t == "int":
            return True, ch.pick([0, 1, -1, 2147483647, -2147483648, 64])
        if t == "long":
            return True, ch.pick([0, -1, 1 << 40, -(1 << 62)])
        if t == "float":
            return True, ch.pick([0.0, 1.5, -2.25])
        if t == "double":
            return True, ch.pick([0.0, 1.5, -1e300, 0.1])
        if t == "string":
            return True, ch.pick(["", "x", "défaut"])
        if t == "bytes":
            if self.p["bytes_defaults"]:
                return True, ch.pick(["", "ÿ\u0000a"])
            return False, None
        return False, None  # by-name reference: leave without default


def schema(ch, **profile):
    g = SchemaGen(ch, **profile)
    s = g.top()
    return s, g.stats


# ------------------------------------------------------------------------------- data
BIG_F32 = struct.unpack("<f", b"\xff\xff\x7f\x7f")[0]


class DataGen:
    def __init__(self, ch, hints=False, omit_defaults=True, tuples=True, max_len=4,
                 big_collections=True, long_strings=(63, 64, 65, 200, 8192), huge=False, deep=False,
                 exotic=False):
        self.ch = ch
        self.hints = hints
        self.omit_defaults = omit_defaults
        self.tuples = tuples
        self.max_len = max_len
        self.big_collections = big_collections
        self.long_strings = list(long_strings)
        self.f32_safe = False
        self.huge = huge      # size profile: length varints of 3 and 4 bytes, collections of thousands
        self.deep = deep      # recursion depth up to ~40 instead of ~6
        self.huge_left = 2    # at most two huge leaves per generator (keeps a run in the 10 ms range)
        self.exotic = exotic  # other conforming Python types: Mapping / int subclasses, array.array, OrderedDict
        self.budget = 4000    # nodes per generator: stops exponential growth of multiply-recursive types
        self.probes = {}

    def _p(self, name):
        self.probes[name] = self.probes.get(name, 0) + 1

    def integer(self, lo, hi, small=False):
        ch = self.ch
        if small:
            return ch.pick([0, 1, -1, 63, 64, -64, -65, 8191, 8192, (1 << 24), -(1 << 24)])
        mode = ch.draw(4)
        if mode == 0:
            return ch.pick([0, 1, -1, 2, 63, -64])
        if mode == 1 and hi > refavro.INT_MAX and ch.chance(25):
            # magnitude thresholds: int32 edge inside a long, the binary64 integer edge, int64 edge
            self._p("int_magnitude_threshold")
            return ch.pick([(1 << 31) - 1, 1 << 31, -(1 << 31) - 1, 1 << 53, (1 << 53) + 1, -(1 << 53) - 1,
                            (1 << 63) - 1, -(1 << 63), (1 << 62)])
        if mode == 1:
            # varint length boundaries: |n| around 2^(7k-1)
            kmax = 4 if hi == refavro.INT_MAX else 9
            k = 1 + ch.draw(kmax)
            base = 1 << (7 * k - 1)
            v = base + ch.pick([0, -1, 1])
            if ch.draw(2):
                v = -v
            self._p(f"varint_len_boundary_k{k}")
            return max(lo, min(hi, v))
        if mode == 2:
            self._p("int_extreme")
            return ch.pick([lo, hi, lo + 1, hi - 1])
        return ch.rng_int(lo, hi)

    def f32(self):
        ch = self.ch
        mode = ch.draw(5)
        if mode == 0:
            return ch.pick([0.0, 1.0, -1.5, 0.25])
        if mode == 1:
            self._p("float_special")
            return ch.pick([-0.0, float("inf"), float("-inf"), float("nan"),
                            struct.unpack("<f", b"\x01\x00\x00\x00")[0], BIG_F32, -BIG_F32])
        if mode == 2:
            return float(ch.pick([0, 1, -7, 1 << 20]))
        v = struct.unpack("<f", ch.bytes(4))[0]
        return v

    def f64(self):
        ch = self.ch
        mode = ch.draw(5)
        if mode == 0:
            return ch.pick([0.0, 1.0, -1.5, 0.1])
        if mode == 1:
            self._p("float_special")
            return ch.pick([-0.0, float("inf"), float("-inf"), float("nan"), 5e-324,
                            1.7976931348623157e308, -2.2250738585072014e-308])
        if mode == 2:
            return ch.pick([0, 1, -7, 1 << 40])  # an int under double
        return struct.unpack("<d", ch.bytes(8))[0]

    def string(self):
        ch = self.ch
        mode = ch.draw(6)
        if mode == 0:
            return ch.pick(["a", "x", "hello"])
        if mode == 1:
            self._p("string_empty")
            return ""
        if mode == 2:
            self._p("string_multibyte")
            return ch.pick(["é", "中文", "\U0001F600", "a\u0000b", "߿ࠀ￿", "e\u0301\u0323", "\U0010FFFF\U00010000", "\ufeffx"])
        if mode == 3:
            if self.huge and self.huge_left > 0 and ch.chance(50):
                self.huge_left -= 1
                self._p("string_huge")
                # 8192 / 1048576 bytes: the length prefix grows to 3 / 4 bytes; 70000 > 64 KiB
                return ch.pick(["a", "z"]) * ch.pick([8191, 8192, 16384, 70000, 1048575, 1048576])
            self._p("string_long")
            n = ch.pick(self.long_strings)
            return ch.pick(["a", "é", "z"]) * n
        return "".join(chr(32 + ch.draw(95)) for _ in range(ch.draw(6)))

    def bytes_(self):
        ch = self.ch
        mode = ch.draw(5)
        if mode == 0:
            return ch.pick([b"a", b"\x00", b"xyz"])
        if mode == 1:
            return b""
        if mode == 2:
            if self.huge and self.huge_left > 0 and ch.chance(40):
                self.huge_left -= 1
                self._p("bytes_huge")
                return bytes([ch.draw(256)]) * ch.pick([8192, 65536, 70000, 1048576])
            self._p("bytes_all_values")
            return bytes(range(256))
        if mode == 3:
            return bytearray(ch.bytes(ch.draw(5)))
        return ch.bytes(ch.draw(9))

    def length(self):
        ch = self.ch
        mode = ch.draw(10)
        if mode == 0:
            self._p("collection_empty")
            return 0
        if mode == 1 and self.big_collections:
            if self.huge and self.huge_left > 0 and ch.chance(30):
                self.huge_left -= 1
                self._p("collection_ge8192")
                return ch.pick([8192, 8200])
            self._p("collection_ge64")
            return ch.pick([64, 65, 70])
        return 1 + ch.draw(self.max_len)

    def _mapping(self, d):
        if self.exotic and self.ch.chance(15):
            self._p("mapping_not_dict")
            return collections.OrderedDict(d) if self.ch.draw(2) else types.MappingProxyType(d)
        return d

    def _has_float(self, n, depth=0, seen=()):
        """Does a value of node n possibly contain a 'float' leaf?"""
        n = refavro.deref(n)
        if n.k == "float":
            return True
        if depth > 6:
            return False
        if n.k == "array":
            return self._has_float(n.items, depth + 1, seen)
        if n.k == "map":
            return self._has_float(n.values, depth + 1, seen)
        if n.k == "union":
            return any(self._has_float(b, depth + 1, seen) for b in n.branches)
        if n.k == "record":
            if n.name in seen:
                return False
            return any(self._has_float(f.type, depth + 1, seen + (n.name,)) for f in n.fields)
        return False

    def datum(self, n, depth=0, in_union=False, union_kinds=()):
        ch = self.ch
        n = refavro.deref(n)
        k = n.k
        self.budget -= 1
        if self.budget <= 0:
            # out of budget: the smallest value of the type
            if k == "union" and any(refavro.deref(b).k == "null" for b in n.branches):
                return None
            if k == "array":
                return []
            if k == "map":
                return {}
        if self.f32_safe and k in ("double", "int", "long"):
            # below a union one of whose other branches could re-interpret this value as a
            # 'float': keep the normal form branch-independent (binary32-exact values only)
            if k == "double":
                v = self.f32()
                return v
            return self.integer(refavro.INT_MIN, refavro.INT_MAX, small=True)
        if k == "null":
            return None
        if k == "boolean":
            return bool(ch.draw(2))
        if k == "int":
            v = self.integer(refavro.INT_MIN, refavro.INT_MAX, small=bool({"float", "double"} & set(union_kinds)))
            return IntSub(v) if self.exotic and ch.chance(20) else v
        if k == "long":
            v = self.integer(refavro.LONG_MIN, refavro.LONG_MAX, small=bool({"float", "double"} & set(union_kinds)))
            return IntSub(v) if self.exotic and ch.chance(20) else v
        if k == "float":
            return self.f32()
        if k == "double":
            return self.f64()
        if k == "bytes":
            return self.bytes_()
        if k == "string":
            return self.string()
        if k == "fixed":
            return ch.bytes(n.size)
        if k == "enum":
            return ch.pick(n.symbols)
        if k == "array":
            lim = 40 if self.deep else 5
            ln = 0 if depth > lim else self.length()
            if depth > 2:
                ln = min(ln, 2 if not self.deep else 1)
            if ln > 64 and refavro.deref(n.items).k in ("record", "array", "map", "union"):
                ln = 64 + ln % 7    # thousands of items only for leaf item types
            items = [self.datum(n.items, depth + 1) for _ in range(ln)]
            if self.exotic and refavro.deref(n.items).k == "long" and ch.chance(30):
                self._p("array_as_array_array")
                return array.array("q", [int(x) for x in items])
            if self.tuples and not in_union and ch.chance(10):
                self._p("array_as_tuple")
                return tuple(items)
            return items
        if k == "map":
            lim = 40 if self.deep else 5
            ln = 0 if depth > lim else self.length()
            if depth > 2:
                ln = min(ln, 2 if not self.deep else 1)
            if ln > 64 and refavro.deref(n.values).k in ("record", "array", "map", "union"):
                ln = 64 + ln % 7
            out = {}
            for i in range(ln):
                key = ch.pick(["k", "", "é", "key"]) + str(i)
                out[key] = self.datum(n.values, depth + 1)
            return self._mapping(out)
        if k == "union":
            kinds = [refavro.deref(b).k for b in n.branches]
            if depth > (40 if self.deep else 5) and "null" in kinds:
                return None
            if self.deep and depth > 3 and depth <= 40 and "null" in kinds and len(kinds) > 1:
                # keep descending: prefer a non-null branch so that recursive types actually get deep
                i = 1 + ch.draw(len(n.branches) - 1) if kinds[0] == "null" else ch.draw(len(n.branches))
                if depth >= 30:
                    self._p("recursion_depth_ge30")
            else:
                i = ch.draw(len(n.branches))
            self._p(f"union_branch_{min(i, 3)}")
            b = refavro.deref(n.branches[i])
            saved = self.f32_safe
            if saved:
                pass   # an enclosing union already demands binary32-exact values
            elif b.k == "double":
                pass   # a direct 'double' branch always wins for a Python float (documented): free doubles
            elif any(self._has_float(o) for j, o in enumerate(n.branches) if j != i):
                self.f32_safe = True
            try:
                v = self.datum(b, depth + 1, in_union=True, union_kinds=kinds)
            finally:
                self.f32_safe = saved
            if self.hints and b.k == "record" and ch.chance(30):
                if ch.draw(2):
                    self._p("hint_tuple")
                    return (b.name, v)
                self._p("hint_dash_type")
                v = dict(v)
                v["-type"] = b.name
            return v
        if k == "record":
            out = {}
            for f in n.fields:
                if f.has_default and self.omit_defaults and ch.chance(40):
                    self._p("omitted_default")
                    continue
                out[f.name] = self.datum(f.type, depth + 1)
            if depth >= 3:
                self._p("record_depth_ge3")
            return self._mapping(out)
        raise ValueError(k)


class IntSub(int):
    """An int subclass (numpy-like integer scalars behave this way)."""


def zero_byte_schema():
    """Schemas whose every value encodes to zero bytes."""
    return {"type": "record", "name": "Z", "fields": [{"name": "n", "type": "null"}]}


def mutate_bad(ch, n, d, depth=0):
    """Return (ok, bad) where bad is d with ONE mutation that every correct writer must
    reject: wrong Python type at a leaf, None where no null is accepted, unknown enum
    symbol, wrong fixed length, missing required field."""
    n = refavro.deref(n)
    k = n.k
    if k == "record" and isinstance(d, dict):
        cands = [f for f in n.fields if f.name in d]
        ch_list = ch.shuffle(cands)
        for f in ch_list:
            if ch.chance(50) and not f.has_default and not refavro.conforms(f.type, None):
                bad = dict(d)
                del bad[f.name]
                return True, bad
            ok, sub = mutate_bad(ch, f.type, d[f.name], depth + 1)
            if ok:
                bad = dict(d)
                bad[f.name] = sub
                return True, bad
        return False, d
    if k == "array" and isinstance(d, (list, tuple)) and len(d) > 0:
        i = ch.draw(len(d))
        ok, sub = mutate_bad(ch, n.items, d[i], depth + 1)
        if ok:
            bad = list(d)
            bad[i] = sub
            return True, bad
        return False, d
    if k == "map" and isinstance(d, dict) and d:
        key = ch.pick(sorted(d))
        ok, sub = mutate_bad(ch, n.values, d[key], depth + 1)
        if ok:
            bad = dict(d)
            bad[key] = sub
            return True, bad
        return False, d
    if k == "union":
        kinds = {refavro.deref(b).k for b in n.branches}
        # a value that conforms to no branch: pick an object() of a foreign class
        if kinds <= {"null", "boolean", "int", "long", "float", "double", "string", "bytes", "enum", "fixed", "record", "array", "map"}:
            class Alien:
                pass
            return True, Alien()
    if k in ("int", "long"):
        return True, ch.pick(["notanint", None, 1 << 70])
    if k == "string":
        # "\ud800": a str that validates as a string but cannot be encoded as UTF-8
        return True, ch.pick([12, None, b"bytes", "\ud800"])
    if k == "boolean":
        return False, d   # Python truthiness: most writers accept anything
    if k == "bytes":
        return True, ch.pick([12, None])
    if k == "float":
        # 1e300 validates as a float but does not fit binary32 (struct raises OverflowError)
        return True, ch.pick(["x1", None, 1e300])
    if k == "double":
        return True, ch.pick(["x1", None])
    if k == "enum":
        return True, "NOT_A_SYMBOL"
    if k == "fixed":
        return True, bytes(n.size + 1)
    if k == "null":
        return False, d
    return False, d
