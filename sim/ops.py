"""History engine: call descriptors applied to an environment of named objects.

A descriptor is a small dict such as {"op": "swrite", "schema": "P1", "datum": "D3",
"out": "B4"}.  ``apply`` executes it against fastavro and returns an *observation*:
canonical return value, bytes left on output streams (also when the call raised),
exception class (never message text).  Shared by C17 (histories vs fresh interpreter)
and C18 (what each thread runs).
"""
import copy
import io
import json
import os
import random
import shutil
import tempfile

from runner import canon


def snapshot(o):
    """Deep canonical snapshot used for the inputs-intact check."""
    return json.dumps(canon(o), sort_keys=False, default=str)


def _get(E, ref):
    if isinstance(ref, str) and ref in E:
        return E[ref]
    return ref


def apply(F, d, E):
    """Execute descriptor d in environment E.  Returns observation dict."""
    obs = {"op": d["op"], "ret": None, "exc": None, "out": None}
    sink = {}
    try:
        ret = _do(F, d, E, sink)
        obs["ret"] = canon(ret)
    except Exception as e:  # noqa
        obs["exc"] = type(e).__name__
    if "stream" in sink:
        try:
            obs["out"] = sink["stream"].getvalue().hex() if isinstance(sink["stream"].getvalue(), bytes) else sink["stream"].getvalue()
        except Exception:  # noqa
            obs["out"] = "<unreadable>"
    return obs


def _reader_opts(d):
    return {k: v for k, v in d.get("opts", {}).items()}


def _do(F, d, E, sink):
    op = d["op"]
    if op == "parse":
        schema = _get(E, d["schema"])
        into = E[d["into"]] if d.get("into") else None
        kw = {}
        if d.get("expand"):
            kw["expand"] = True
        if into is not None:
            p = F.parse_schema(schema, into, **kw)
        else:
            p = F.parse_schema(schema, **kw)
        if d.get("out"):
            E[d["out"]] = p
        # observable: canonical form of the result + the named types it knows
        try:
            cf = F.schema.to_parsing_canonical_form(p)
        except Exception as e:  # noqa
            cf = "canon-raises:" + type(e).__name__
        return {"canonical": cf, "same_object": p is schema,
                "names": sorted(into) if into is not None else None}
    if op == "churn":
        # endurance traffic: every call builds its own small schemas (fresh objects that die with the call),
        # so that per-process tables, caches keyed by id() and leak-on-error counters see hundreds of distinct
        # and failing inputs; the result depends on (i, kind) only
        i, kind = d["i"], d["kind"]
        inner_a = {"type": "record", "name": "In%d" % i, "fields": [{"name": "x%d" % (i % 5), "type": "long"}]}
        inner_b = {"type": "record", "name": "Jn%d" % i, "fields": [{"name": "y%d" % (i % 3), "type": "long"}]}
        rec = {"type": "record", "name": "Ch%d" % i, "fields": [
            {"name": "a%d" % (i % 7), "type": "int"}, {"name": "s", "type": "string"},
            {"name": "u", "type": ["null", inner_a, inner_b]},
            {"name": "l", "type": {"type": "array", "items": {"type": "map", "values": "In%d" % i}}, "default": []}]}
        datum = {"a%d" % (i % 7): i, "s": "v%d" % i, "u": {"y%d" % (i % 3): i * 8191},
                 "l": [{"k": {"x%d" % (i % 5): i}}] * (i % 3)}
        opts = {}
        if kind == "reject":
            datum["l"] = [{"k": {"x%d" % (i % 5): "notalong"}}]      # fails three container levels down
        elif kind == "badschema":
            rec["fields"].append({"name": "z", "type": {"type": "record", "name": "Zn%d" % i, "fields": [
                {"name": "q", "type": "NoSuchType%d" % i}]}})
        elif kind == "strict":
            opts = {"strict": True}
            datum.setdefault("l", [])
        fo = io.BytesIO()
        sink["stream"] = fo
        F.schemaless_writer(fo, rec, datum, **opts)
        b = fo.getvalue()
        if kind == "resolve":
            reader = {"type": "record", "name": "Ch%d" % i, "fields": [
                {"name": "s", "type": "string"}, {"name": "extra%d" % (i % 4), "type": "int", "default": i}]}
            v = F.schemaless_reader(io.BytesIO(b), rec, reader)
        else:
            v = F.schemaless_reader(io.BytesIO(b), rec)
        return {"value": v, "valid": F.validation.validate(datum, rec, raise_errors=False),
                "canonical": F.schema.to_parsing_canonical_form(rec)}
    if op == "edit":
        # not a library call: the CALLER edits one of its own schema objects in place between calls
        t = E[d["target"]]
        tag = d["tag"]
        if isinstance(t, dict) and t.get("type") == "record":
            t["fields"].append({"name": "zz_added_" + tag, "type": ["null", "int"], "default": None})
        elif isinstance(t, dict) and t.get("type") == "enum":
            t["symbols"].append("ZZ_ADDED_" + tag)
        elif isinstance(t, list) and "boolean" not in t:
            t.append("boolean")
        return None
    if op == "swrite":
        fo = io.BytesIO()
        sink["stream"] = fo
        F.schemaless_writer(fo, _get(E, d["schema"]), _get(E, d["datum"]), **d.get("opts", {}))
        b = fo.getvalue()
        if d.get("out"):
            E[d["out"]] = b
        return b
    if op == "sread":
        data = _get(E, d["bytes"])
        fo = io.BytesIO(data)
        kw = _reader_opts(d)
        if d.get("reader"):
            kw["reader_schema"] = _get(E, d["reader"])
        v = F.schemaless_reader(fo, _get(E, d["schema"]), **kw)
        return {"value": v, "consumed": fo.tell()}
    if op == "cwrite":
        fo = io.BytesIO()
        sink["stream"] = fo
        kw = dict(d.get("opts", {}))
        if d.get("meta"):
            kw["metadata"] = _get(E, d["meta"])
        F.writer(fo, _get(E, d["schema"]), _get(E, d["records"]), **kw)
        b = fo.getvalue()
        if d.get("out"):
            E[d["out"]] = b
        return b
    if op == "cappend":
        # append to an existing container file: the schema argument is documented as ignored
        fo = io.BytesIO(_get(E, d["bytes"]))
        fo.seek(0, 2)
        sink["stream"] = fo
        kw = dict(d.get("opts", {}))
        if d.get("meta"):
            kw["metadata"] = _get(E, d["meta"])
        F.writer(fo, _get(E, d["schema"]), _get(E, d["records"]), **kw)
        b = fo.getvalue()
        if d.get("out"):
            E[d["out"]] = b
        return b
    if op == "cread":
        data = _get(E, d["bytes"])
        kw = _reader_opts(d)
        if d.get("reader"):
            kw["reader_schema"] = _get(E, d["reader"])
        r = F.reader(io.BytesIO(data), **kw)
        recs = []
        sink["partial"] = recs
        for x in r:
            recs.append(x)
        return {"records": recs, "codec": r.codec,
                "schema": F.schema.to_parsing_canonical_form(r.writer_schema)}
    if op == "bread":
        data = _get(E, d["bytes"])
        r = F.block_reader(io.BytesIO(data))
        out = []
        for b in r:
            out.append({"n": b.num_records, "offset": b.offset, "size": b.size, "records": list(b)})
        return out
    if op == "writer_handle":
        # a Writer kept across calls: create / write / flush as separate descriptors
        sub = d["action"]
        if sub == "create":
            fo = io.BytesIO()
            E[d["out"] + ".fo"] = fo
            sink["stream"] = fo
            kw = dict(d.get("opts", {}))
            if d.get("meta"):
                kw["metadata"] = _get(E, d["meta"])
            E[d["out"]] = F.write.Writer(fo, _get(E, d["schema"]), **kw)
            return fo.getvalue()
        w = E[d["handle"]]
        fo = E[d["handle"] + ".fo"]
        sink["stream"] = fo
        if sub == "write":
            w.write(_get(E, d["datum"]))
        elif sub == "flush":
            w.flush()
        return fo.getvalue()
    if op == "validate":
        return F.validation.validate(_get(E, d["datum"]), _get(E, d["schema"]), **d.get("opts", {}))
    if op == "validate_many":
        return F.validation.validate_many(_get(E, d["records"]), _get(E, d["schema"]), **d.get("opts", {}))
    if op == "canon":
        return F.schema.to_parsing_canonical_form(_get(E, d["schema"]))
    if op == "fingerprint":
        text = F.schema.to_parsing_canonical_form(_get(E, d["schema"])) if d.get("schema") else d["text"]
        return F.schema.fingerprint(text, d["algo"])
    if op == "jwrite":
        fo = io.StringIO()
        sink["stream"] = fo
        F.json_writer(fo, _get(E, d["schema"]), _get(E, d["records"]), **d.get("opts", {}))
        t = fo.getvalue()
        if d.get("out"):
            E[d["out"]] = t
        return t
    if op == "jread":
        fo = io.StringIO(_get(E, d["text"]))
        if d.get("reader"):
            return list(F.json_reader(fo, _get(E, d["schema"]), _get(E, d["reader"])))
        return list(F.json_reader(fo, _get(E, d["schema"])))
    if op == "generate":
        random.seed(d["seed"])
        n = d["n"]
        if n is None:
            return F.utils.generate_one(_get(E, d["schema"]))
        return list(F.utils.generate_many(_get(E, d["schema"]), n))
    if op == "expand":
        return json.dumps(F.schema.expand_schema(_get(E, d["schema"])), sort_keys=True, default=str)
    if op == "fullname":
        return F.schema.fullname(_get(E, d["schema"]))
    if op == "load":
        tmp = tempfile.mkdtemp(prefix="verif-load-")
        try:
            for name, sch in d["files"].items():
                with open(os.path.join(tmp, name + ".avsc"), "w") as f:
                    json.dump(sch, f)
            if d.get("ordered"):
                p = F.schema.load_schema_ordered([os.path.join(tmp, n + ".avsc") for n in d["ordered"]])
            else:
                p = F.schema.load_schema(os.path.join(tmp, d["top"] + ".avsc"))
            if d.get("out"):
                E[d["out"]] = p
            return F.schema.to_parsing_canonical_form(p)
        finally:
            shutil.rmtree(tmp, ignore_errors=True)
    if op == "load_dir":
        base = d["dir"]
        if d.get("ordered"):
            p = F.schema.load_schema_ordered([os.path.join(base, n + ".avsc") for n in d["ordered"]])
        else:
            p = F.schema.load_schema(os.path.join(base, d["top"] + ".avsc"))
        if d.get("out"):
            E[d["out"]] = p
        return F.schema.to_parsing_canonical_form(p)
    if op == "is_avro":
        return F.is_avro(io.BytesIO(_get(E, d["bytes"])))
    raise ValueError(f"unknown op {op}")


def describe(d):
    """Printable form of a descriptor (object references stay names)."""
    from runner import jsonable
    return jsonable(d)
