#!/usr/bin/env python3
"""Regenerates MANIFEST.json from the table below (single source of truth)."""
import json, os
HERE = os.path.dirname(os.path.abspath(__file__))

CLAIMED = {
 "C06": dict(cat="fault_enumeration", ref="DESIGN.md 4 (C06)",
   technique="deterministic simulation: seeded files on simulated storage, enumerated crash points (cut at every byte) and sync-marker faults, oracle from an independent parser",
   text="Per sampled container file every truncation offset and every sync-marker bit/replacement is injected into the simulated storage and both readers are driven to completion; the yielded records must be a prefix of what the independent parser recovers, normal end only on block boundaries, altered markers always reported. Files are seeded samples (fastavro writer, append/write_block histories, foreign writer); enumeration is complete per file only.",
   note="trusted: refavro (independent parser) for block boundaries and records; pure-Python modules only; 'raises' = any exception class"),
 "C07": dict(cat="exploration", ref="DESIGN.md 4 (C07)",
   technique="deterministic simulation: seeded operation/fault histories (failed writes, restarts for append, block copies) on simulated and real streams against a list-of-records reference model",
   text="Seeded histories over {create, write, failing write, flush, write_block from fastavro- and foreign-written donors, re-open for append with unrelated valid arguments, public writer() append} are applied to a BytesIO, a simulated append-mode file or a real 'a+b' file and to a reference model; after every flush and re-open the stream is read back and must equal the model exactly, header bytes unchanged. Sampling of an infinite history space: evidence, not proof.",
   note="trusted: the reference model (a Python list), refavro.normal_eq for the documented normalisation; pure-Python modules only"),
 "C18": dict(cat="exploration", ref="DESIGN.md 4 (C18)",
   technique="deterministic simulation: real threads under a seeded baton-passing scheduler pre-empting at CPython switch points (sys.monitoring) inside fastavro, optionally after a single-threaded prehistory in a pristine forked process; oracle = solo run",
   text="2-3 caller threads run seeded operation lists on distinct streams sharing parsed schema objects; a seeded scheduler (uniform / sticky / PCT) decides every context switch at CPython 3.12 switch points in fastavro code, one seed = one exactly repeatable interleaving; each task's values, bytes and exception classes must equal those of its solo run; deadlock, stall and step-cap are violations. Every execution works on fresh copies of the shared objects and one schedule in five runs in a fresh fork of a pristine process, so that first-use races (lazily built tables, per-schema caches) happen under the schedule. Seeded search over schedules, not enumeration.",
   note="trusted: sys.monitoring event delivery as a sound subset of real switch points (calls to C types emit no event); solo run as reference; CPython 3.12.1 with GIL; pure-Python modules only"),
 "C03": dict(cat="fault_enumeration", ref="DESIGN.md 4 (C03)",
   technique="deterministic simulation: independent foreign writer with seeded legal layout freedom feeding a read-only simulated input; enumerated stored-byte faults (every truncation point, every out-of-range index at every index site)",
   text="Per seeded (schema, value) the independent encoder produces a spec-valid encoding under a drawn block layout; fastavro must decode it to the independent decoder's value and skip it exactly (fault-free), must raise for every proper prefix (read and skip mode) and for eight out-of-range values forged at every union/enum index position. Enumeration is complete per encoding (sampled only for very large encodings / site counts); encodings are seeded samples.",
   note="trusted: refavro encoder/decoder (independent, spec-derived); 'raises' = any exception; skipped enum values are not required to be range-checked"),
 "C01": dict(cat="exploration", ref="DESIGN.md 4 (C01)",
   technique="deterministic simulation: producer and consumer tasks over a simulated bounded pipe under a seeded scheduler (streaming / ping-pong / close at boundary), byte accounting at the stream seam; sequential fault-free baseline on stub and real buffered inputs; values of earlier runs of the same process re-checked later (accumulated process state)",
   text="The stream-framing clause (the reader consumes exactly the bytes the writer produced; values written back to back are read one by one) is decided by a two-task message-stream simulation: bytes written per call versus bytes consumed per read are accounted at the seam, ping-pong mode deadlocks on any read-ahead, only read / write+flush may be called, a close at a value boundary must make the next read raise. The round-trip clause rides along as the fault-free baseline over seeded (schema, value) samples: evidence, not proof.",
   note="trusted: SimPipe = BufferedReader-over-pipe semantics (checked against a real os.pipe in the self-test); refavro.normal_eq for the documented normalisation; one known finding (omitted bytes/fixed defaults) is listed in KNOWN_FINDINGS.txt"),
 "C04": dict(cat="exploration", ref="DESIGN.md 4 (C04)",
   technique="deterministic simulation: writer and reader over simulated stream kinds (write-only sink, read-only sequential input, bounded pipe with a writer task and a reader task under a seeded schedule) with swarm-randomised knobs; files of earlier runs of the same process re-read later (accumulated process state)",
   text="Every knob the property quantifies over (schema kind, record shapes incl. zero-byte and interval-threshold records, codec, sync_interval, level, marker, metadata, raw/parsed, stream kind) is drawn per run; the simulated streams expose only the permitted calls and log every call, the pipe configuration runs writer and reader concurrently under a seeded schedule and must neither deadlock nor leave bytes unread; the same records rewritten under a second sync_interval must read back identically. Record equality is the fault-free baseline over sampled schemas.",
   note="trusted: simulated stream semantics (pipe = buffered reader over a pipe); refavro.normal_eq; fastavro's own canonical-form function applied to both the supplied and the reported schema"),
 "C05": dict(cat="exploration", ref="DESIGN.md 4 (C05)",
   technique="deterministic simulation: two-party exchange over simulated storage with an independent implementation (refavro) as the peer; seeded legal layout freedom of the foreign writer; stored-byte faults for is_avro",
   text="fastavro and an independent spec-derived implementation exchange seeded container files in both directions over simulated storage: the peer parses fastavro's files strictly (magic, header map, sync, every block, end of file) and must recover the submitted records; the peer writes layout-valid files exercising the freedom fastavro's own writer never uses (empty blocks, multi-chunk and negative-count header maps, absent codec key, foreign array/map block layouts, every codec) which reader and block_reader must return; block offsets/sizes observed through the simulator's tell must tile the file per the peer's boundaries; is_avro is driven with every cut <= 6, every bit flip of the magic and seeded byte strings through buffers, read-only streams and real paths; Java-written fixtures are replayed through the same path.",
   note="trusted: refavro as peer and oracle (it parses all Java-written fixtures of the test suite); deflate trailing bytes tolerated and counted"),
 "C17": dict(cat="exploration", ref="DESIGN.md 4 (C17)",
   technique="deterministic simulation: seeded call histories (including failing calls and shared objects) in one long-lived process versus the same call's dependency slice in a pristine forked interpreter, including endurance histories of hundreds to thousands of calls with short-lived schemas; before/after snapshots of arguments",
   text="Seeded histories of 5-60 public calls over schema families that reuse type names with different definitions, shared raw/parsed schema objects, shared named-schema dictionaries, Writer handles and failing calls are executed in one process of their own (a fresh fork per history); for each checked call only its dependency slice is re-evaluated in another pristine forked interpreter and value, stream bytes and exception class must agree; every schema and datum argument is snapshotted before and after each call. Seeded sampling of histories.",
   note="trusted: fork of a process that imported but never called fastavro stands for a fresh interpreter (sampled against real subprocess interpreters in the self-test); the slicing rule (object-level data flow incl. named-schema dictionaries)"),
 "C19": dict(cat="exploration", ref="DESIGN.md 4 (C19)",
   technique="deterministic simulation: schema storage behind the repository seam (real directory and in-memory repository), seeded dependency graphs and delivery orders, complete single-fault enumeration (any one file missing)",
   text="Seeded acyclic dependency graphs of named types are stored one per file and loaded through the real FlatDictRepository and a logging in-memory repository; the result must have the canonical form and datum encoding of the inline-at-first-use parse; load_schema_ordered is driven with a seeded linear extension of the dependency order; for every reachable type the 'file missing' fault is injected (all of them, per graph) and loading must raise naming that type.",
   note="trusted: the generator's inline oracle (first use in document order) and fastavro's parse_schema / canonical form on it; only the missing-file fault is modelled"),
 "C20": dict(cat="exploration", ref="DESIGN.md 4 (C20)",
   technique="deterministic simulation: the library's random source behind a seam (seeded SimRandom with injected extreme draws, seeded uuid4); generated values checked by validate, an independent conformance predicate, both writers and read-back",
   text="fastavro.utils.random is replaced by a seeded generator that additionally injects boundary draws each of which the real source can produce; for seeded schemas (all kinds, logical types, by-name references, one nullable self-reference) and counts the generated values must be exactly n, validate, satisfy an independent conformance predicate, be accepted by the schemaless and container writers and read back without error. Non-terminating recursive schemas are a known finding kept as fixed probes.",
   note="trusted: refavro.conforms; the argument that each injected draw is reachable by the real generator; two known findings listed in KNOWN_FINDINGS.txt"),
}

NA = {
 "C02": "pure function of (schema, datum) versus the specification: no stream behaviour, fault, history, schedule or random source for a simulator to vary",
 "C08": "schema resolution is a pure function of (writer schema, reader schema, bytes); nothing to schedule or fault",
 "C09": "branch choice is stated as a function of schema and datum alone; history/schedule independence of that function is C17/C18's subject",
 "C10": "validate is a pure predicate; its one stateful clause (no byte of a rejected record emitted) is exercised as the failed-write clause of C07",
 "C11": "parse_schema accept/reject is a pure function of the schema",
 "C12": "a metamorphic relation between spellings of one input; the shared named-schema dictionary is an explicit argument (hidden state is C17)",
 "C13": "pure text transformation",
 "C14": "pure hash function",
 "C15": "JSON codec keeps all state per encoder/decoder instance and reads its input in one go; the statement is about text produced for an input",
 "C16": "pure value conversions; the only environmental dependency (process time zone) is excluded by the property's own domain; the shared decimal context is C18's subject",
}
PENDING = {k: "pending: check under construction (claimed in DESIGN.md, not yet registered)" for k in ["C01","C03","C04","C05","C07","C17","C18","C19","C20"] if k not in CLAIMED}

def main():
    checks = []
    for pid in sorted(CLAIMED):
        c = CLAIMED[pid]
        checks.append({
            "property_id": pid,
            "quick_cmd": f"./vcheck {pid} --tier quick",
            "thorough_cmd": f"./vcheck {pid} --tier thorough",
            "evidence_file": f"evidence/{pid}.json",
            "replay_cmd_template": f"./vcheck {pid} --replay {{path}}",
            "engine": "sim",
            "level_claimed": {"category": c["cat"], "text": c["text"], "design_ref": c["ref"]},
            "level_note": c["note"],
            "technique": c["technique"],
        })
    na = [{"property_id": k, "reason": v} for k, v in sorted({**NA, **PENDING}.items())]
    m = {
        "version": 1,
        "setup_cmd": "/venv/bin/python -m compileall -q sim >/dev/null && ./vcheck selftest --quick-smoke",
        "hooks": {
            "guard": "FASTAVRO_VERIF",
            "enable": "no hooks: every seam is an argument (fo, repo), a module attribute (urandom, random, uuid4) or sys.monitoring; checks import fastavro straight from /repo's working tree (VERIF_REPO) with the pure-Python modules",
            "baseline_off_cmd": "cd /repo && /venv/bin/python -m pytest -ra -q -p no:cacheprovider --timeout=900 --continue-on-collection-errors",
            "source_commits": [],
            "add_only": True,
        },
        "engines": [{"name": "sim", "path": "sim/", "serves_properties": sorted(CLAIMED),
                     "kind_free_text": "deterministic simulation with fault injection: seeded Choices -> simulated streams / storage / scheduler (sys.monitoring baton-passing threads) / history engine; independent peer+oracle refavro; fork pool; minimiser; replay files"}],
        "checks": checks,
        "not_applicable": na,
        "notes": "See DESIGN.md (section 10 = as built). Exit codes: 0 held (possibly KNOWN-FINDING lines), 1 VIOLATION property=<id> replay=<path>, 2 harness error. vcheck pins PYTHONHASHSEED=0 and TZ=UTC; VERIF_SEED, VERIF_TIER, VERIF_BUDGET_S, VERIF_RUNS, VERIF_WORKERS, VERIF_REPO are honoured. ./vcheck selftest = determinism + stub fidelity; ./vcheck sensitivity = 51 own mutants + 62 sub-agent changes with replay verification (last full run: AUDIT.md).",
    }
    json.dump(m, open(os.path.join(HERE, "MANIFEST.json"), "w"), indent=1)

if __name__ == "__main__":
    main()
