#!/usr/bin/env python3
"""Confirm a sub-agent's change and file it under /verif/seeded/<id>/.

usage: tools_seeded.py <prop> <worktree-with-out-dir> <n> <slug> [--checks C01,C06]

Confirmation (all in a fresh scratch worktree of /repo HEAD, removed afterwards):
  1. the demo passes on the unchanged tree (exit 0)
  2. the patch applies; the demo fails with it (exit != 0)
  3. every BASELINE stable_pass test still passes with the patch
  4. the registered quick check(s) are run against the patched tree (VERIF_REPO)
"""
import json
import os
import shutil
import subprocess
import sys
import tempfile
import xml.etree.ElementTree as ET

VERIF = os.path.dirname(os.path.abspath(__file__))


def sh(cmd, cwd=None, env=None, timeout=3600):
    r = subprocess.run(cmd, shell=True, cwd=cwd, env=env, capture_output=True, text=True, timeout=timeout)
    return r.returncode, (r.stdout + r.stderr)


def suite_ok(wt):
    out = tempfile.mktemp(suffix=".xml")
    sh(f"/venv/bin/python -m pytest -q -p no:cacheprovider --timeout=900 --continue-on-collection-errors --junitxml={out} tests", cwd=wt)
    base = json.load(open("/root/.vp/BASELINE.json"))
    want = set(base["stable_pass"])
    ok = set()
    for tc in ET.parse(out).iter("testcase"):
        if not any(c.tag in ("failure", "error", "skipped") for c in tc):
            ok.add(f"{tc.get('classname')}::{tc.get('name')}")
    os.unlink(out)
    missing = sorted(want - ok)
    return missing


def main():
    prop, wt, n, slug = sys.argv[1:5]
    checks = [prop]
    if "--checks" in sys.argv:
        checks = sys.argv[sys.argv.index("--checks") + 1].split(",")
    sid = f"{prop}-{slug}"
    src = os.path.join(wt, "out")
    dst = os.path.join(VERIF, "seeded", sid)
    os.makedirs(dst, exist_ok=True)
    shutil.copy(os.path.join(src, f"change{n}.diff"), os.path.join(dst, "patch.diff"))
    shutil.copy(os.path.join(src, f"demo{n}.py"), os.path.join(dst, "demo.py"))
    shutil.copy(os.path.join(src, f"change{n}.md"), os.path.join(dst, "notes.md"))
    scratch = tempfile.mkdtemp(prefix="verif-confirm-")
    os.rmdir(scratch)
    log = {}
    try:
        rc, out = sh(f"git -C /repo worktree add -q --detach {scratch} HEAD")
        assert rc == 0, out
        os.makedirs(os.path.join(scratch, "out"))
        shutil.copy(os.path.join(dst, "demo.py"), os.path.join(scratch, "out", "demo.py"))
        rc0, o0 = sh("/venv/bin/python out/demo.py", cwd=scratch, timeout=1200)
        log["demo_unchanged_rc"] = rc0
        rc, out = sh(f"git apply {os.path.join(dst, 'patch.diff')}", cwd=scratch)
        log["patch_applies"] = rc == 0
        if rc != 0:
            log["patch_error"] = out[-500:]
        rc1, o1 = sh("/venv/bin/python out/demo.py", cwd=scratch, timeout=1200)
        log["demo_patched_rc"] = rc1
        log["demo_patched_tail"] = o1[-400:]
        missing = suite_ok(scratch)
        log["suite_missing"] = missing[:10]
        confirmed = rc0 == 0 and rc1 != 0 and log["patch_applies"] and not missing
        log["confirmed"] = confirmed
        results = {}
        for c in checks:
            env = dict(os.environ, VERIF_REPO=scratch, VERIF_NO_RECHECK="1")
            rc, out = sh(f"{VERIF}/vcheck {c} --tier quick", env=env, timeout=1800)
            vio = [l for l in out.splitlines() if l.startswith("VIOLATION")]
            detail = [l for l in out.splitlines() if l.startswith('{"clause"')]
            results[c] = {"rc": rc, "violation": vio[:1], "detail": (detail[0][:700] if detail else ""),
                          "tail": out[-300:] if rc not in (0, 1) else ""}
        log["checks"] = results
        detected = [c for c, r in results.items() if r["rc"] == 1]
        broken = [c for c, r in results.items() if r["rc"] not in (0, 1)]
        if broken:
            print("HARNESS ERROR (exit code other than 0/1) in:", broken, {c: results[c]["tail"][-300:] for c in broken})
        notes = open(os.path.join(dst, "notes.md")).read()
        meta = {
            "id": sid, "property": prop, "source": "independent sub-agent (given only the property text and a scratch worktree)",
            "needs_to_manifest": notes.strip()[:1500],
            "confirmed": confirmed,
            "confirmation": {"demo on unchanged tree": f"exit {rc0}", "demo with patch": f"exit {rc1}",
                             "pinned test suite with patch": "all 540 stable tests pass" if not missing else f"{len(missing)} stable tests fail: {missing[:5]}"},
            "ran": [f"git worktree add <scratch> HEAD; python out/demo.py; git apply patch.diff; python out/demo.py; pytest tests (vs BASELINE stable_pass)",
                    f"VERIF_REPO=<scratch> ./vcheck {{{','.join(checks)}}} --tier quick"],
            "checks": checks,
            "detected_by": detected,
            "expect": "detected" if detected else "missed",
            "check_results": results,
        }
        json.dump(meta, open(os.path.join(dst, "meta.json"), "w"), indent=1)
        print(json.dumps({"id": sid, "confirmed": confirmed, "detected_by": detected,
                          "demo": [rc0, rc1], "suite_missing": len(missing),
                          "detail": {c: r["detail"][:300] for c, r in results.items()}}, indent=1))
    finally:
        sh(f"git -C /repo worktree remove --force {scratch}")
        shutil.rmtree(scratch, ignore_errors=True)


if __name__ == "__main__":
    main()
