#!/bin/sh
# Runs every quick check under several VERIF_SEED values (default 1..6) and prints one line per run.
# A VIOLATION or HARNESS line on the unchanged tree is a false alarm or a finding to look at.
cd "$(dirname "$0")"
SEEDS="${*:-1 2 3 4 5 6}"
for sd in $SEEDS; do for p in C01 C03 C04 C05 C06 C07 C17 C18 C19 C20; do
  VERIF_SEED=$sd VERIF_NO_RECHECK=1 ./vcheck $p 2>&1 | grep -E "VIOLATION|quick:|HARNESS" | cut -c1-170 | sed "s/^/seed=$sd /"
done; done
# leave the evidence files as written by seed 0
for p in C01 C03 C04 C05 C06 C07 C17 C18 C19 C20; do VERIF_SEED=0 ./vcheck $p >/dev/null 2>&1; done
